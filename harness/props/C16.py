"""C16 — waveforms and pulses honour their defining contracts (PARTIAL, level "other").

Three layers, on every run:

* Lean: `Properties/C16.lean` (ℚ idealisation: index/slice semantics, composite, ramp values,
  window area, scaling laws, change_duration, ArbitraryPhase telescoping, phase range, Blackman
  search loop) is built and its axioms audited.
* Correspondence: the model behind `pm_wave` and the real classes of `/repo` on the same inputs
  (exact for index/slice/constant/custom/composite; 1e-12 relative where floats round).
* Monitor: the property re-stated directly over the real objects (no model): finite samples,
  documented values, areas, max-value search optimality, change_duration, scaling, equality,
  pulse invariants, arbitrary-phase reconstruction (direct and through the sampler).

A case is a small JSON dict (`k` = index | slice | wf | fmv | pulse | arb); it is its own replay.
"""
from __future__ import annotations

import collections
import json
import math
import random
import warnings
from fractions import Fraction
from pathlib import Path

import numpy as np

import common
from common import (
    Driver, InfraError, Timer, load_known_findings, match_known, rat, wlist, write_evidence,
    write_replay,
)

PROP = "C16"
LEAN_TARGETS = ["PulserModel.Waveform", "Proofs.Waveform", "Properties.C16", "pm_wave"]
TWO_PI = 2 * np.pi
REL = 1e-12          # correspondence tolerance (relative to the largest sample)
ROUND_ABS = 1e-9     # InterpolatedWaveform rounds its samples to <= 9 decimals

UNCOVERED = [
    "sample values of np.blackman / np.kaiser (the normalised window is an oracle parameter of the "
    "model; only sum-normalisation, area and scaling are proved)",
    "InterpolatedWaveform values (PCHIP / interp1d, np.round): monitor only",
    "KaiserWaveform.from_max_val search and its optimality: monitor only",
    "BlackmanWaveform.from_max_val: proved for the ideal window sum 0.42(N-1) (hypothesis, checked "
    "numerically for N >= 4) and rational arithmetic; float rounding of the loop condition is not modelled",
    "Waveform.__eq__ (np.isclose) and __hash__: monitor only",
    "all float64 rounding: theorems are over Q; `* 1e-3` is modelled as `/ 1000`, `2*np.pi` by its "
    "exact float value",
]

TRUSTED_BASE = [
    "Lean 4.33 kernel; axioms allowed: propext, Classical.choice, Quot.sound (audited per theorem)",
    "statements in lean/Properties/C16.lean say what the (idealised) clauses say",
    "hand-written model lean/PulserModel/Waveform.lean corresponds to /repo (checked on generated cases)",
    "harness/props/C16.py (builders, comparison tolerances), lean/Driver/WaveMain.lean parser",
    "numpy leaf functions used as oracles: np.blackman, np.kaiser (window handed to the model)",
]


# --------------------------------------------------------------------------
# real objects
# --------------------------------------------------------------------------
def _wf():
    import pulser.waveforms as W

    return W


def build(spec):
    """Real waveform from a spec (may raise what the constructors raise)."""
    W = _wf()
    c = spec["c"]
    if c == "const":
        return W.ConstantWaveform(spec["d"], spec["v"])
    if c == "ramp":
        return W.RampWaveform(spec["d"], spec["a"], spec["b"])
    if c == "custom":
        return W.CustomWaveform(spec["xs"])
    if c == "blackman":
        return W.BlackmanWaveform(spec["d"], spec["area"])
    if c == "kaiser":
        return W.KaiserWaveform(spec["d"], spec["area"], spec["beta"])
    if c == "interp":
        return W.InterpolatedWaveform(spec["d"], spec["values"], times=spec.get("times"),
                                      interpolator=spec.get("interpolator", "PchipInterpolator"),
                                      **spec.get("kwargs", {}))
    if c == "composite":
        return W.CompositeWaveform(*[build(p) for p in spec["parts"]])
    raise InfraError(f"bad spec {spec}")


def arr(w) -> np.ndarray:
    return np.asarray(w.samples.as_array(detach=True), dtype=float)


def has_interp(spec) -> bool:
    return spec["c"] == "interp" or (spec["c"] == "composite" and any(has_interp(p) for p in spec["parts"]))


def exact_spec(spec) -> bool:
    """Samples are exactly Q-expressible (no float rounding between parameters and samples)."""
    if spec["c"] in ("const", "custom"):
        return True
    if spec["c"] == "composite":
        return all(exact_spec(p) for p in spec["parts"])
    return False


def window_norm(spec):
    d = spec["d"]
    if d <= 0:
        return []
    if spec["c"] == "blackman" and d <= 2:
        return [1.0] * d        # /repo e02d4356: windows of at most two samples are flat
    with warnings.catch_warnings():
        warnings.simplefilter("ignore")
        w = np.blackman(d) if spec["c"] == "blackman" else np.kaiser(d, spec["beta"])
    return list(np.clip(w, 0, np.inf))


def wire(spec) -> str:
    c = spec["c"]
    if isinstance(spec.get("d"), int) and spec["d"] < 0:
        spec = dict(spec, d=0)      # the model's durations are naturals; `duration <= 0` is one rejection
    if c == "const":
        return f"C {spec['d']} {rat(spec['v'])}"
    if c == "ramp":
        return f"R {spec['d']} {rat(spec['a'])} {rat(spec['b'])}"
    if c == "custom":
        return f"U {wlist(spec['xs'], rat)}"
    if c == "blackman":
        return f"W - {wlist(window_norm(spec), rat)} {rat(spec['area'])}"
    if c == "kaiser":
        if spec["beta"] < 0:   # np.kaiser would be evaluated with a rejected beta; keep the length
            return f"W {rat(spec['beta'])} {wlist([0.0] * max(spec['d'], 0), rat)} {rat(spec['area'])}"
        return f"W {rat(spec['beta'])} {wlist(window_norm(spec), rat)} {rat(spec['area'])}"
    if c == "composite":
        return f"K {len(spec['parts'])} " + " ".join(wire(p) for p in spec["parts"])
    raise InfraError(f"no wire form for {c}")


def int_duration(spec) -> bool:
    if spec["c"] == "composite":
        return all(int_duration(p) for p in spec["parts"])
    return spec["c"] == "custom" or isinstance(spec.get("d"), int)


# --------------------------------------------------------------------------
# failures
# --------------------------------------------------------------------------
class Fail:
    def __init__(self, clause: str, msg: str, key: dict | None = None):
        self.clause, self.msg = clause, msg
        self.key = dict(key or {})
        self.key.setdefault("clause", clause)

    def __repr__(self):
        return f"Fail({self.clause}: {self.msg})"


def close(a, b, tol, scale=1.0) -> bool:
    return bool(abs(a - b) <= tol * max(scale, 1e-300) + 1e-300)


def allclose(a: np.ndarray, b: np.ndarray, tol: float, scale: float | None = None) -> bool:
    if a.shape != b.shape:
        return False
    if a.size == 0:
        return True
    if scale is None:
        scale = float(max(np.max(np.abs(a)), np.max(np.abs(b))))
    return bool(np.all(np.abs(a - b) <= tol * max(scale, 1e-300) + 1e-300))


# --------------------------------------------------------------------------
# monitors (real objects only)
# --------------------------------------------------------------------------
def leaves(w):
    W = _wf()
    if isinstance(w, W.CompositeWaveform):
        for p in w.waveforms:
            yield from leaves(p)
    else:
        yield w


def spec_duration(spec) -> int:
    """The duration a spec asks for, from the constructor arguments only."""
    if spec["c"] == "custom":
        return len(spec["xs"])
    if spec["c"] == "composite":
        return sum(spec_duration(p) for p in spec["parts"])
    return int(spec["d"])


def mon_duration(spec, w) -> list[Fail]:
    """`duration` and the number of samples are what the constructor was given."""
    want = spec_duration(spec)
    n = len(arr(w)) if finite(w) else None
    if int(w.duration) != want or (n is not None and n != want):
        return [Fail("duration", f"{type(w).__name__} built for {want} ns reports duration {w.duration}"
                                 f" and has {n} samples", dict(cls=type(w).__name__))]
    return []


def ref_window(spec, d=None) -> np.ndarray:
    """Blackman / Kaiser samples from numpy alone: clip(window(d), 0) scaled to the requested area
    (windows of at most two Blackman samples are flat)."""
    d = spec["d"] if d is None else d
    norm = np.asarray(window_norm(dict(spec, d=d)), dtype=float)
    with np.errstate(all="ignore"):
        return norm * (float(spec["area"]) / float(np.sum(norm)) * 1e3)


def mon_finite(w) -> list[Fail]:
    """Every waveform has exactly `duration` finite samples (reported per leaf)."""
    out = []
    for leaf in leaves(w):
        cls = type(leaf).__name__
        try:
            s = arr(leaf)
        except Exception as e:  # noqa: BLE001
            out.append(Fail("samples-raise", f"{cls}({leaf.duration}).samples raises {type(e).__name__}: {e}",
                            dict(cls=cls, interpolator=getattr(leaf, "_kwargs", {}).get("interpolator"))))
            continue
        if len(s) != leaf.duration:
            out.append(Fail("sample-count", f"{cls}: {len(s)} samples for duration {leaf.duration}", dict(cls=cls)))
        elif not np.all(np.isfinite(s)):
            out.append(Fail("finite-samples", f"{cls}(duration={leaf.duration}) samples {s[:4]}",
                            dict(cls=cls, duration=int(leaf.duration))))
    if not out:
        s = arr(w)
        if len(s) != w.duration:
            out.append(Fail("sample-count", f"{type(w).__name__}: {len(s)} samples for duration {w.duration}"))
    return out


def finite(w) -> bool:
    try:
        s = arr(w)
    except Exception:  # noqa: BLE001
        return False
    return len(s) == w.duration and bool(np.all(np.isfinite(s)))


def mon_values(spec, w) -> list[Fail]:
    """Documented values at documented points; integral / first / last value."""
    out = []
    s = arr(w)
    c = spec["c"]
    d = len(s)
    sc = float(np.max(np.abs(s))) if d else 0.0
    if not close(w.integral, float(np.sum(s)) * 1e-3, 1e-15, max(sc * d, 1e-300)):
        out.append(Fail("integral", f"integral {w.integral} vs sum*1e-3 {float(np.sum(s)) * 1e-3}"))
    if float(w.first_value) != s[0] or float(w.last_value) != s[-1]:
        out.append(Fail("first-last", f"first/last {w.first_value},{w.last_value} vs {s[0]},{s[-1]}"))
    if c == "const":
        if not np.all(s == float(spec["v"])):
            out.append(Fail("constant-values", f"ConstantWaveform({d},{spec['v']}) has samples {s[:3]}"))
    elif c == "custom":
        if not np.array_equal(s, np.asarray(spec["xs"], dtype=float)):
            out.append(Fail("custom-values", "CustomWaveform samples differ from the input"))
    elif c == "ramp" and d >= 2:
        a, b = float(spec["a"]), float(spec["b"])
        m = max(abs(a), abs(b))
        ideal = np.array([float(Fraction(a) + Fraction(i) * (Fraction(b) - Fraction(a)) / (d - 1)) for i in range(d)])
        if not (close(s[0], a, REL, m) and close(s[-1], b, REL, m)):
            out.append(Fail("ramp-ends", f"Ramp({d},{a},{b}) ends {s[0]},{s[-1]}"))
        if not allclose(s, ideal, REL, m):
            out.append(Fail("ramp-values", f"Ramp({d},{a},{b}) off the line by {np.max(np.abs(s - ideal))}"))
        if np.min(s) < min(a, b) or np.max(s) > max(a, b):
            out.append(Fail("ramp-range", f"Ramp({d},{a},{b}) leaves [start, stop]"))
        if not close(w.slope, (b - a) / (d - 1), 1e-15, m):
            out.append(Fail("ramp-slope", f"slope {w.slope}"))
    elif c == "composite":
        # the parts are built again from the spec (not read back from the composite)
        parts = [arr(build(ps)) for ps in spec["parts"]]
        if not np.array_equal(s, np.concatenate(parts)):
            out.append(Fail("composite-samples", "composite samples are not the concatenation of the parts"))
        if w.duration != sum(spec_duration(ps) for ps in spec["parts"]):
            out.append(Fail("composite-duration", "composite duration is not the sum"))
        listed = list(w.waveforms)
        if len(listed) != len(parts) or any(
                type(p) is not type(build(ps)) or not np.array_equal(arr(p), q, equal_nan=True)
                for p, ps, q in zip(listed, spec["parts"], parts)):
            out.append(Fail("composite-parts", "`waveforms` does not list the parts given, in order"))
    elif c in ("blackman", "kaiser"):
        area = float(spec["area"])
        if not close(w.integral, area, 1e-9, abs(area)):
            out.append(Fail("window-area", f"{c}({d},{area}) integrates to {w.integral}"))
        if area != 0 and np.any(s * np.sign(area) < 0):
            out.append(Fail("window-sign", f"{c}({d},{area}) has samples of the opposite sign"))
        if d >= 3 and not allclose(s, s[::-1], 1e-9):
            out.append(Fail("window-symmetric", f"{c}({d}) is not symmetric"))
        if not allclose(s, ref_window(spec), 1e-12):
            out.append(Fail("window-values", f"{c}({d},{area}) differs from the scaled numpy window by "
                                             f"{np.max(np.abs(s - ref_window(spec)))}"))
    elif c == "interp":
        vals = np.asarray(spec["values"], dtype=float)
        times = np.asarray(spec["times"], dtype=float) if spec.get("times") is not None \
            else np.linspace(0, 1, len(vals))
        rng_ = float(np.max(np.abs(vals))) if len(vals) else 1.0
        tol = ROUND_ABS * max(1.0, rng_)
        # the samples are rounded to 9 decimals whatever the scale of the values: values far below 1 are
        # judged relative to their own range and keyed apart (`small_values`)
        small = 0 < rng_ < 1e-3
        vtol = 1e-6 * rng_ if small else tol
        pts = w.data_points
        if len({int(t) for t, _ in pts}) < len(pts):
            # two data points fall on the same nanosecond: "the documented value at the documented
            # point" is contradictory; PchipInterpolator rejects such input, interp1d takes it silently
            out.append(Fail("interp-collision", f"InterpolatedWaveform({d}, {len(vals)} values) accepted although "
                            "data points collide after rounding to whole ns",
                            dict(interpolator=spec.get("interpolator", "PchipInterpolator"))))
            return out
        for (t, v), tt, vv in zip(pts, times, vals):
            if int(t) != int(round(tt * (d - 1))) or v != vv:
                out.append(Fail("interp-points", f"data point ({t},{v}) for time fraction {tt}, value {vv}"))
                break
            if 0 <= int(t) < d and abs(s[int(t)] - vv) > vtol:
                out.append(Fail("interp-values", f"sample {int(t)} = {s[int(t)]} but data point value {vv}",
                                dict(small_values=bool(small))))
                break
        spans = times.min() == 0 and times.max() == 1
        # (PCHIP and the piecewise linear / constant kinds of interp1d stay between the data values; a
        # quadratic or cubic spline may legitimately overshoot them)
        bounded = spec.get("kwargs", {}).get("kind", "linear") in ("linear", "nearest", "previous")
        if spans and bounded and (np.min(s) < vals.min() - tol or np.max(s) > vals.max() + tol):
            out.append(Fail("interp-overshoot", f"samples leave [{vals.min()}, {vals.max()}]"))
    return out


PARAM_ATTRS = {
    "ConstantWaveform": ["_value"], "RampWaveform": ["_start", "_stop"], "BlackmanWaveform": ["_area"],
    "KaiserWaveform": ["_area", "_beta"], "InterpolatedWaveform": ["_values", "_times"],
}


def mon_chdur(w, new, spec=None) -> list[Fail]:
    cls = type(w).__name__
    try:
        w2 = w.change_duration(new)
    except NotImplementedError:
        if cls in PARAM_ATTRS:
            return [Fail("change-duration", f"{cls}.change_duration raises NotImplementedError")]
        return []
    except ValueError as e:
        if cls == "InterpolatedWaveform" and spec is not None and new > 0 and interp_collides(dict(spec, d=new)):
            return []    # the data points collide on the shorter grid: a legitimate refusal
        return [Fail("change-duration", f"{cls}.change_duration({new}) raises {e}")]
    out = []
    if cls not in PARAM_ATTRS:
        return [Fail("change-duration", f"{cls}.change_duration unexpectedly succeeds")]
    if type(w2) is not type(w) or w2.duration != new:
        out.append(Fail("change-duration", f"{cls}.change_duration({new}) -> {type(w2).__name__}({w2.duration})"))
    for a in PARAM_ATTRS[cls]:
        x, y = getattr(w, a), getattr(w2, a)
        x = np.asarray(x.as_array() if hasattr(x, "as_array") else x, dtype=float)
        y = np.asarray(y.as_array() if hasattr(y, "as_array") else y, dtype=float)
        if cls == "InterpolatedWaveform" and a == "_times" and w._kwargs.get("times") is None:
            continue  # default times are re-derived from the number of values
        if not np.array_equal(x, y):
            out.append(Fail("change-duration", f"{cls}.change_duration changes {a}: {x} -> {y}"))
    if len(arr(w2)) != new:
        out.append(Fail("change-duration", f"new waveform has {len(arr(w2))} samples, not {new}"))
    out += mon_finite(w2)
    if spec is not None and not out:
        # "preserves the defining parameters": the result is the waveform one gets by building it anew
        # with the same arguments and the new duration (no private attribute involved)
        try:
            fresh = arr(build(dict(spec, d=new)))
        except (ValueError, TypeError):
            fresh = None
        if fresh is not None and not np.array_equal(arr(w2), fresh, equal_nan=True):
            out.append(Fail("change-duration", f"{cls}.change_duration({new}) is not {cls} built with the same "
                                               f"parameters and duration {new}"))
    return out


def scale_tol(spec, k) -> float:
    return (ROUND_ABS * 4 if has_interp(spec) else 1e-12) * (1 + abs(k))


def mon_scale(spec, w, op, k) -> list[Fail]:
    out = []
    s = arr(w)
    try:
        if op == "scale":
            w2, want = w * k, s * k
        elif op == "neg":
            w2, want = -w, -s
        else:
            w2, want = w / k, (s / k if k != 0 else None)
    except ZeroDivisionError:
        return [] if (op == "div" and k == 0) else [Fail("scale", f"{op} {k} raises ZeroDivisionError")]
    if op == "div" and k == 0:
        return [Fail("div-zero", "division by zero does not raise")]
    s2 = arr(w2)
    if type(w2) is not type(w) or w2.duration != w.duration:
        out.append(Fail("scale", f"{op} changes class/duration: {type(w2).__name__}({w2.duration})"))
    elif not np.all(np.isfinite(want)):
        pass        # overflow of the scaled values: outside the generator's intent
    elif not allclose(s2, want, scale_tol(spec, k if op == "scale" else (1 / k if op == "div" else 1)),
                      max(1.0, float(np.max(np.abs(want)))) if has_interp(spec) else None):
        out.append(Fail("scale", f"{op} {k}: samples differ from the scaled samples by {np.max(np.abs(s2 - want))}"))
    return out


def isclose_ref(a: np.ndarray, b: np.ndarray) -> bool:
    return bool(np.all(np.abs(a - b) <= 1e-8 + 1e-5 * np.abs(b)))


def mon_eq(w, at, factor) -> list[Fail]:
    """Equality agrees with sample-wise closeness (np.isclose defaults), away from the threshold."""
    W = _wf()
    out = []
    s = arr(w)
    if not (w == w):
        out.append(Fail("eq-reflexive", f"{type(w).__name__}({w.duration}) != itself"))
    if w == "waveform" or w == W.ConstantWaveform(w.duration + 1, 0.0):
        out.append(Fail("eq-type-duration", "equal to a non-waveform / a waveform of another duration"))
    t = s.copy()
    i = at % len(s)
    thr = 1e-8 + 1e-5 * abs(s[i])
    t[i] = s[i] + factor * thr
    # closeness is evaluated with the perturbed array as reference (`b` of np.isclose)
    want = isclose_ref(s, t)
    got = w == W.CustomWaveform(t)
    if got != want:
        out.append(Fail("eq-closeness", f"== gives {got}, sample-wise closeness {want} (perturbation {factor} x threshold)"))
    if got and hash(w) != hash(W.CustomWaveform(s)):
        out.append(Fail("eq-hash", "equal samples, different hash"))
    return out


def mon_fmv(case) -> tuple[list[Fail], dict]:
    """from_max_val: area, never above max_val, and one ns shorter would exceed it (or is not closer)."""
    W = _wf()
    cls = W.BlackmanWaveform if case["cls"] == "blackman" else W.KaiserWaveform
    mv, area = case["max_val"], case["area"]
    extra = (case["beta"],) if case["cls"] == "kaiser" else ()
    info = {}
    try:
        w = cls.from_max_val(mv, area, *extra)
    except ValueError as e:
        info["error"] = str(e)[:60]
        if np.sign(mv) != np.sign(area) or (extra and extra[0] < 0):
            return [], info
        return [Fail("fmv-raises", f"from_max_val({mv},{area}) raises {e}")], info
    if np.sign(mv) != np.sign(area):
        return [Fail("fmv-sign", "mismatched signs accepted")], info
    out = []
    N = w.duration
    info["duration"] = N
    s = arr(w)
    if not np.all(np.isfinite(s)):
        return [Fail("finite-samples", f"{cls.__name__}.from_max_val({mv},{area}) -> duration {N}, samples {s[:3]}",
                     dict(cls=cls.__name__, duration=int(N)))], info
    m = float(np.max(np.abs(s)))
    info["max"] = m
    if m > abs(mv) * (1 + 1e-12):
        out.append(Fail("fmv-exceeds", f"max |sample| {m} > max_val {abs(mv)} (duration {N})"))
    if np.any(s * np.sign(area) < 0):
        out.append(Fail("fmv-sign", "samples of the wrong sign"))
    if not close(w.integral, area, 1e-9, abs(area)):
        out.append(Fail("window-area", f"integral {w.integral} != {area}"))
    # Blackman windows of <= 4 samples are the "odd/even irregularity of very short windows" the property exempts
    if N >= 2 and not (case["cls"] == "blackman" and N <= 4):
        # the one-ns-shorter candidate from numpy alone (not through the class under test)
        s1 = ref_window(dict(c=case["cls"], d=N - 1, area=area, beta=case.get("beta", 14.0)))
        if not allclose(s, ref_window(dict(c=case["cls"], d=N, area=area, beta=case.get("beta", 14.0))), 1e-12):
            out.append(Fail("window-values", f"{cls.__name__}.from_max_val({mv},{area}): samples differ from the "
                                             f"scaled numpy window of duration {N}"))
        if np.all(np.isfinite(s1)):
            m1 = float(np.max(np.abs(s1)))
            info["max_shorter"] = m1
            # one ns shorter would exceed max_val -- or (odd/even irregularity) it stays below
            # but is no closer to max_val than the chosen one
            if not (m1 > abs(mv) * (1 - 1e-12) or m1 <= m * (1 + 1e-12)):
                out.append(Fail("fmv-not-closest",
                                f"duration {N - 1} peaks at {m1} <= max_val {abs(mv)}, closer than chosen {N} ({m})",
                                dict(cls=cls.__name__)))
    return out, info


def wrap_dist(x: np.ndarray) -> np.ndarray:
    y = np.mod(x + np.pi, TWO_PI) - np.pi
    return np.abs(y)


def mon_pulse(case) -> tuple[list[Fail], object]:
    from pulser import Pulse

    amp, det = build(case["amp"]), build(case["det"])
    fin = finite(amp) and finite(det)
    reasons = []
    if amp.duration != det.duration:
        reasons.append("duration")
    if finite(amp) and np.any(arr(amp) < 0):
        reasons.append("negative")
    if not finite(amp):
        reasons.append("non-finite amplitude")     # nan compares false: acceptance is unspecified
    try:
        p = Pulse(amp, det, case["phase"], case["post"])
    except ValueError as e:
        if not reasons:
            return [Fail("pulse-spurious-reject", f"valid pulse rejected: {e}")], None
        return [], None
    if not fin:
        return [], p
    out = []
    if reasons:
        out.append(Fail("pulse-accepts-invalid", f"pulse accepted despite {reasons}"))
    if p.amplitude.duration != p.detuning.duration or p.duration != p.amplitude.duration:
        out.append(Fail("pulse-lengths", "unequal waveform lengths"))
    if np.any(arr(p.amplitude) < 0):
        out.append(Fail("pulse-amplitude", "negative amplitude sample"))
    for name, val, given in (("phase", float(p.phase), case["phase"]), ("post_phase_shift", float(p.post_phase_shift), case["post"])):
        if not (0 <= val < TWO_PI):
            tiny = given < 0 and abs(given) < 1e-15
            out.append(Fail("phase-range", f"{name}={val!r} not in [0, 2pi) for input {given!r}",
                            dict(case="tiny-negative" if tiny else "other")))
        if wrap_dist(np.array([val - given]))[0] > 1e-9 * max(1.0, abs(given)):
            out.append(Fail("phase-value", f"{name}={val} is not {given} mod 2pi"))
    return out, p


def mon_arb(case) -> tuple[list[Fail], object]:
    from pulser import Pulse

    amp, ph = build(case["amp"]), build(case["phase"])
    if not (finite(amp) and finite(ph)):
        return [], None
    phi = arr(ph)
    cls = type(ph).__name__
    try:
        p = Pulse.ArbitraryPhase(amp, ph, case.get("post", 0.0))
    except ValueError as e:
        if amp.duration != ph.duration or np.any(arr(amp) < 0):
            return [], None
        return [Fail("arbitrary-phase-builds", f"ArbitraryPhase with a {cls} of duration {ph.duration} raises: {e}",
                     dict(duration=int(ph.duration), branch="general"))], None
    out = []
    det = arr(p.detuning)
    if len(det) != len(phi):
        return [Fail("arbitrary-phase", "detuning length differs from the phase waveform")], p
    rec = float(p.phase) - np.cumsum(det * 1e-3)
    tol = 1e-9 * max(1.0, float(np.max(np.abs(phi))))
    err = wrap_dist(rec - phi)
    if np.max(err) > tol:
        i = int(np.argmax(err))
        out.append(Fail("arbitrary-phase", f"phase_c - cumsum(det)/1e3 misses phi[{i}] by {err[i]} ({cls}, d={len(phi)})",
                        dict(cls=cls)))
    if case.get("via_sampler") and not out:
        out += arb_via_sampler(p, phi, tol)
    return out, p


def arb_via_sampler(p, phi, tol) -> list[Fail]:
    """The same clause observed at ChannelSamples.phase_modulation of a sampled sequence."""
    import pulser
    from pulser.sampler import sample

    reg = pulser.Register.from_coordinates([(0, 0), (6, 0)], prefix="q")
    seq = pulser.Sequence(reg, pulser.devices.MockDevice)
    seq.declare_channel("ch", "rydberg_global")
    seq.add(p, "ch")
    cs = sample(seq).channel_samples["ch"]
    pm_ = np.asarray(cs.phase_modulation.as_array(detach=True), dtype=float)[: len(phi)]
    err = wrap_dist(pm_ - phi)
    if len(pm_) != len(phi) or np.max(err) > tol:
        return [Fail("arbitrary-phase-sampled", f"ChannelSamples.phase_modulation misses phi by {np.max(err)}")]
    return []


def interp_collides(spec) -> bool:
    """Two interpolation points on the same ns, from the constructor arguments alone."""
    vals = spec["values"]
    times = spec["times"] if spec.get("times") is not None else list(np.linspace(0, 1, len(vals)))
    pts = [int(round(float(t) * (spec["d"] - 1))) for t in times]
    return len(set(pts)) < len(pts)


def interp_rejection(spec, e) -> list[Fail]:
    """A refused InterpolatedWaveform is legitimate exactly when its arguments are: positive duration,
    as many times as values, sorted distinct time fractions in [0, 1] and no two points on one ns."""
    if spec["c"] != "interp" or not isinstance(spec.get("d"), int) or spec["d"] <= 0:
        return []
    times = spec.get("times")
    if times is not None and (len(times) != len(spec["values"]) or sorted(set(times)) != list(times)
                              or min(times) < 0 or max(times) > 1):
        return []
    if len(spec["values"]) < 2 or interp_collides(spec):
        return []
    if spec.get("interpolator") == "interp1d" and times is not None and not spec.get("kwargs", {}).get("fill_value"):
        # 'interp1d' does not extrapolate: with points that do not reach both ends of the waveform there are
        # samples it cannot give.  Refusing the waveform is then legitimate (repair of F6.5: it used to be
        # constructed and to raise when sampled); a waveform that IS constructed must give its samples.
        pts = [int(round(float(t) * (spec["d"] - 1))) for t in times]
        if min(pts) > 0 or max(pts) < spec["d"] - 1:
            return []
    return [Fail("interp-spurious-reject", f"InterpolatedWaveform({spec['d']}, {len(spec['values'])} well separated "
                                           f"points) is refused: {e}", dict(interpolator=spec.get("interpolator")))]


def mon_wf(case) -> tuple[list[Fail], object]:
    """All waveform clauses for one (spec, op) case.  Returns (fails, outcome) where outcome is
    ('invalid', exc name) or ('ok', object)."""
    spec, op = case["wf"], case["op"]
    with warnings.catch_warnings():
        warnings.simplefilter("ignore")
        try:
            w = build(spec)
        except (ValueError, TypeError) as e:
            return interp_rejection(spec, e), ("invalid", type(e).__name__)
        fails = mon_finite(w)
        if fails:
            return fails, ("ok", w)
        fails += mon_duration(spec, w)
        if op == "samples":
            fails += mon_values(spec, w)
            if spec["c"] == "composite":
                for ps in spec["parts"]:            # the parts on their own, built from the spec
                    fails += mon_values(ps, build(ps))
        elif op in ("scale", "neg", "div"):
            fails += mon_scale(spec, w, op, case.get("by", -1.0))
        elif op == "chdur":
            fails += mon_chdur(w, case["new"], spec)
        elif op == "eq":
            fails += mon_eq(w, case["at"], case["factor"])
    return fails, ("ok", w)


def mon_index(case) -> tuple[list[Fail], object]:
    """wf[i] against Python's own list indexing."""
    W = _wf()
    d, i = case["d"], case["i"]
    ref_list = [float(x) for x in range(d)]
    w = W.CustomWaveform(ref_list)
    try:
        want = ("ok", ref_list[i])
    except IndexError:
        want = ("err",)
    try:
        got = ("ok", float(w[i]))
    except IndexError:
        got = ("err",)
    if got != want:
        return [Fail("index", f"wf[{i}] on duration {d}: {got}, python list: {want}")], got
    return [], got


def mon_slice(case) -> tuple[list[Fail], object]:
    W = _wf()
    d = case["d"]
    sl = slice(case["start"], case["stop"], case["step"])
    ref_list = [float(x) for x in range(d)]
    w = W.CustomWaveform(ref_list)
    bad_step = case["step"] not in (None, 1)
    try:
        got = ("ok", [float(x) for x in np.atleast_1d(w[sl].as_array())])
    except IndexError:
        got = ("err",)
    want = ("err",) if bad_step else ("ok", ref_list[sl])
    if got != want:
        return [Fail("slice", f"wf[{sl}] on duration {d}: {got}, python list: {want}")], got
    return [], got


# --------------------------------------------------------------------------
# correspondence (model behind pm_wave vs real)
# --------------------------------------------------------------------------
def parse_samples_reply(r: str):
    t = r.split(" ")
    if t[0] != "ok":
        return (t[0],)
    dur = int(t[1])
    if t[2] == "nan":
        return ("ok", dur, None, None) + ((t[4],) if len(t) > 4 else ())
    body = t[2][1:-1]
    xs = [Fraction(x) for x in body.split(",")] if body else []
    return ("ok", dur, xs, Fraction(t[3])) + ((t[4],) if len(t) > 4 else ())


def cmp_samples(model, real: np.ndarray, dur: int, exact: bool, tol: float = REL) -> str | None:
    """None when the model's reply agrees with the real samples."""
    if model[0] != "ok":
        return f"model says {model[0]}, real has a waveform"
    if model[1] != dur:
        return f"duration: model {model[1]}, real {dur}"
    fin = bool(np.all(np.isfinite(real)))
    if model[2] is None:
        return None if not fin else "model: undefined (division by zero), real: finite samples"
    if not fin:
        return f"model: finite samples, real: {real[:4]}"
    if len(model[2]) != len(real):
        return f"length: model {len(model[2])}, real {len(real)}"
    if exact:
        for i, (m, x) in enumerate(zip(model[2], real)):
            if m != Fraction(float(x)):
                return f"sample {i}: model {m}, real {x!r} (exact)"
        return None
    mf = np.array([float(m) for m in model[2]])
    if not allclose(mf, real, tol):
        return f"samples differ by {np.max(np.abs(mf - real))} (tolerance {tol} relative)"
    return None


def corr_wf(drv: Driver, case, outcome) -> str | None:
    spec, op = case["wf"], case["op"]
    if has_interp(spec) or op == "eq" or not int_duration(spec):
        return None
    W = _wf()
    if op == "samples":
        req = f"wf samples {wire(spec)}"
    elif op == "scale":
        req = f"wf scale {rat(case['by'])} {wire(spec)}"
    elif op == "neg":
        req = f"wf neg {wire(spec)}"
    elif op == "div":
        req = f"wf div {rat(case['by'])} {wire(spec)}"
    elif op == "chdur":
        nn = []
        if spec["c"] in ("blackman", "kaiser"):
            nn = window_norm(dict(spec, d=case["new"]))
        req = f"wf chdur {case['new']} {wlist(nn, rat)} {wire(spec)}"
    else:
        return None
    model = parse_samples_reply(drv.ask(req))
    if outcome[0] == "invalid":
        return None if model[0] == "invalid" else f"real constructor raises {outcome[1]}, model: {model[0]}"
    w = outcome[1]
    if model[0] == "invalid":
        return "model rejects the constructor arguments, real accepts"
    with warnings.catch_warnings():
        warnings.simplefilter("ignore")
        if op == "samples":
            return cmp_samples(model, arr(w), w.duration, exact_spec(spec))
        if op in ("scale", "neg"):
            k = case["by"] if op == "scale" else -1.0
            w2 = w * k if op == "scale" else -w
            return cmp_samples(model, arr(w2), w2.duration, False, 4e-12)
        if op == "div":
            try:
                w2 = w / case["by"]
            except ZeroDivisionError:
                return None if model[0] == "zerodiv" else f"real raises ZeroDivisionError, model {model[0]}"
            if model[0] == "zerodiv":
                return "model: ZeroDivisionError, real divides"
            return cmp_samples(model, arr(w2), w2.duration, False, 4e-12)
        if op == "chdur":
            try:
                w2 = w.change_duration(case["new"])
            except NotImplementedError:
                return None if model[0] == "notimpl" else f"real raises NotImplementedError, model {model[0]}"
            except ValueError:
                return None if model[0] == "invalid" else f"real raises ValueError, model {model[0]}"
            if model[0] != "ok":
                return f"model {model[0]}, real changes the duration"
            return cmp_samples(model, arr(w2), w2.duration, exact_spec(spec))
    return None


def corr_index(drv, case, got) -> str | None:
    r = drv.ask(f"index {case['d']} {case['i']}")
    W = _wf()
    try:       # the helper itself (wf[d] would raise inside numpy even if the helper let it through)
        real_j = W.CustomWaveform([0.0] * case["d"])._check_index(case["i"])
    except IndexError:
        real_j = None
    if r == "err":
        if real_j is not None:
            return f"_check_index: model IndexError, real returns {real_j}"
        return None if got[0] == "err" else "model IndexError, real returns"
    j = int(r.split()[1])
    if real_j != j:
        return f"_check_index: model {j}, real {real_j}"
    if got[0] == "err":
        return f"model position {j}, real IndexError"
    return None if got[1] == float(j) else f"model position {j}, real returns element {got[1]}"


def corr_slice(drv, case, got) -> str | None:
    o = lambda x: "-" if x is None else str(x)  # noqa: E731
    r = drv.ask(f"slice {case['d']} {o(case['start'])} {o(case['stop'])} {o(case['step'])}")
    if r == "err":
        return None if got[0] == "err" else "model IndexError, real returns"
    _, s, e = r.split()
    if got[0] == "err":
        return "model returns, real IndexError"
    want = [float(x) for x in range(int(s), int(e))]
    W = _wf()
    real_slice = W.CustomWaveform([0.0] * case["d"])._check_slice(slice(case["start"], case["stop"], case["step"]))
    if (real_slice.start, real_slice.stop) != (int(s), int(e)):
        return f"_check_slice: model ({s},{e}), real {real_slice}"
    return None if got[1] == want else f"model slice ({s},{e}) selects {want[:5]}…, real {got[1][:5]}…"


def corr_pulse(drv, case, p) -> str | None:
    amp, det = build(case["amp"]), build(case["det"])
    if not (finite(amp) and finite(det)):
        return None
    r = drv.ask(f"pulse {wlist(arr(amp), rat)} {wlist(arr(det), rat)} {rat(case['phase'])} {rat(case['post'])}")
    if r == "err":
        return None if p is None else "model rejects, real accepts"
    if p is None:
        return "model accepts, real rejects"
    _, ph, post = r.split()
    for name, m, x in (("phase", Fraction(ph), float(p.phase)), ("post", Fraction(post), float(p.post_phase_shift))):
        if wrap_dist(np.array([float(m) - x]))[0] > 1e-9:
            return f"{name}: model {float(m)}, real {x}"
    return None


def corr_arb(drv, case, p) -> str | None:
    amp, ph = build(case["amp"]), build(case["phase"])
    if not finite(amp) or amp.duration != ph.duration or np.any(arr(amp) < 0):
        return None
    c = case["phase"]["c"]
    if c == "const":
        r = drv.ask(f"arbconst {case['phase']['d']} {rat(case['phase']['v'])}")
    elif c == "ramp":
        r = drv.ask(f"arbramp {case['phase']['d']} {rat(case['phase']['a'])} {rat(case['phase']['b'])}")
    else:
        if not finite(ph):
            return None
        r = drv.ask(f"arb {wlist(arr(ph), rat)}")
    if r == "err":
        if p is None:
            return None
        bad = not (np.all(np.isfinite(arr(p.detuning))) and np.isfinite(float(p.phase)))
        return None if bad else "model: undefined, real builds a finite pulse"
    if p is None:
        return "model builds the pulse, real raises"
    _, pc, det, _ = r.split()
    body = det[1:-1]
    mdet = np.array([float(Fraction(x)) for x in body.split(",")]) if body else np.zeros(0)
    rdet = arr(p.detuning)
    if not np.all(np.isfinite(rdet)):
        return "model: finite detuning, real: non-finite"
    if not allclose(mdet, rdet, 1e-9, max(1.0, float(np.max(np.abs(mdet))) if mdet.size else 1.0)):
        return f"detuning differs by {np.max(np.abs(mdet - rdet))}"
    if wrap_dist(np.array([float(Fraction(pc)) - float(p.phase)]))[0] > 1e-9:
        return f"phase offset: model {float(Fraction(pc))}, real {float(p.phase)}"
    return None


def corr_fmv(drv, case, info) -> str | None:
    """Blackman only: the search loop with tabulated window sums / peaks (oracle)."""
    if case["cls"] != "blackman" or "duration" not in info:
        return None
    mv, area = abs(case["max_val"]), abs(case["area"])
    guess = math.ceil(area / (0.42 * mv) * 1e3)
    if guess < 4:
        return None
    n0 = guess - 1
    S, pk = [], []
    for n in range(n0, guess + 8):
        wn = np.clip(np.blackman(n), 0, np.inf)
        S.append(float(np.sum(wn)))
        pk.append(float(np.max(wn)))
    r = drv.ask(f"bfrom {rat(area)} {rat(mv)} 8 {n0} {wlist(S, rat)} {wlist(pk, rat)}").split()
    # float guess and rational guess may differ when area/(0.42 max)·1e3 is within an ulp of an integer
    if r[1] != str(guess):
        return None
    if r[3] == "-":
        return "model search does not terminate within 8 steps"
    return None if int(r[3]) == info["duration"] else f"duration: model {r[3]}, real {info['duration']}"


def blackman_sum_hypothesis(nmax: int) -> list[Fail]:
    """Numeric check of the hypothesis of `blackman_search_minimal`: sum(blackman(N)) = 0.42 (N-1), N >= 4."""
    out = []
    for n in list(range(4, 60)) + list(range(60, nmax, 37)):
        s = float(np.sum(np.clip(np.blackman(n), 0, np.inf)))
        if abs(s - 0.42 * (n - 1)) > 1e-9 * n:
            out.append(Fail("blackman-sum-hypothesis", f"sum(blackman({n})) = {s} != 0.42*{n - 1}"))
            break
    return out


# --------------------------------------------------------------------------
# running one case
# --------------------------------------------------------------------------
def run_case(drv: Driver | None, case) -> tuple[list[Fail], str | None, bool]:
    """(monitor failures, model/implementation divergence, non-trivial?)"""
    try:
        return _run_case(drv, case)
    except InfraError:
        raise
    except Exception as e:  # noqa: BLE001 -- the code under test raised where the property promises a value
        import traceback
        where = [f for f in traceback.extract_tb(e.__traceback__) if "/pulser" in f.filename]
        if not where:
            raise
        loc = f"{Path(where[-1].filename).name}:{where[-1].name}"
        return [Fail("real-code-raises", f"{type(e).__name__}: {str(e)[:100]} in {loc}",
                     dict(kind=case["k"], error=type(e).__name__))], None, True


def _run_case(drv: Driver | None, case) -> tuple[list[Fail], str | None, bool]:
    k = case["k"]
    with warnings.catch_warnings():
        warnings.simplefilter("ignore")
        with np.errstate(all="ignore"):
            if k == "index":
                f, got = mon_index(case)
                return f, (corr_index(drv, case, got) if drv else None), got[0] == "ok"
            if k == "slice":
                f, got = mon_slice(case)
                return f, (corr_slice(drv, case, got) if drv else None), got[0] == "ok" and len(got[1]) > 0
            if k == "wf":
                f, outcome = mon_wf(case)
                return f, (corr_wf(drv, case, outcome) if drv else None), outcome[0] == "ok"
            if k == "fmv":
                f, info = mon_fmv(case)
                return f, (corr_fmv(drv, case, info) if drv else None), "duration" in info
            if k == "pulse":
                try:
                    f, p = mon_pulse(case)
                except (ValueError, TypeError):
                    return [], None, False
                return f, (corr_pulse(drv, case, p) if drv else None), p is not None
            if k == "arb":
                try:
                    f, p = mon_arb(case)
                except (ValueError, TypeError):
                    return [], None, False
                return f, (corr_arb(drv, case, p) if drv else None), p is not None
    raise InfraError(f"unknown case kind {k}")


# --------------------------------------------------------------------------
# generators
# --------------------------------------------------------------------------
DURS = list(range(1, 41))
BIG = [41, 64, 100, 257, 1000]
VALS = [0.0, 1.0, -1.0, 0.5, -0.5, TWO_PI, -TWO_PI, 1e-3, -1e-3, 123.456, -37.25, 15.0, 3.0]


def val(rng) -> float:
    r = rng.random()
    if r < 0.45:
        return rng.choice(VALS)
    if r < 0.8:
        return rng.uniform(-50, 50)
    return rng.randrange(-64, 65) / 8.0


def pos(rng) -> float:
    return abs(val(rng)) or 1.0


def gen_leaf(rng, cls, d) -> dict:
    if cls == "const":
        return dict(c="const", d=d, v=val(rng))
    if cls == "ramp":
        a = val(rng)
        return dict(c="ramp", d=d, a=a, b=a if rng.random() < 0.1 else val(rng))
    if cls == "custom":
        return dict(c="custom", xs=[val(rng) for _ in range(d)])
    if cls == "blackman":
        return dict(c="blackman", d=d, area=val(rng))
    if cls == "kaiser":
        return dict(c="kaiser", d=d, area=val(rng), beta=rng.choice([14.0, 0.0, 0.5, 2.0, 5.0, 8.6, 30.0]))
    if cls == "interp":
        n = rng.randrange(2, 6)
        values = [val(rng) for _ in range(n)]
        times = None
        if rng.random() < 0.5:
            inner = sorted({round(rng.random(), 3) for _ in range(n - 2)} - {0.0, 1.0})
            times = [0.0] + inner + [1.0]
            values = values[: len(times)] + [val(rng)] * max(0, len(times) - len(values))
            values = values[: len(times)]
        spec = dict(c="interp", d=d, values=values, times=times,
                    interpolator=rng.choice(["PchipInterpolator", "PchipInterpolator", "interp1d"]))
        if spec["interpolator"] == "interp1d" and rng.random() < 0.5:
            # options handed through to the interpolator are defining parameters too (they must survive
            # scaling and change_duration — seeded change C16-interp-change-duration-drops-kwargs)
            kinds = ["linear", "nearest", "previous"] + (["quadratic"] if len(values) >= 3 else []) + \
                (["cubic"] if len(values) >= 4 else [])
            spec["kwargs"] = dict(kind=rng.choice(kinds))
        return spec
    raise InfraError(cls)


LEAF_CLASSES = ["const", "ramp", "custom", "blackman", "kaiser", "interp"]


def gen_spec(rng, cls, d) -> dict:
    if cls != "composite":
        return gen_leaf(rng, cls, d)
    # split d into 2..4 parts (parts of duration >= 1); nested once in a while
    n = min(d, rng.randrange(2, 5))
    if n < 2:
        return dict(c="composite", parts=[gen_leaf(rng, "const", 1)])   # rejected: needs two waveforms
    cuts = sorted(rng.sample(range(1, d), n - 1)) if d > n else list(range(1, n))
    sizes = [b - a for a, b in zip([0] + cuts, cuts + [d])]
    parts = []
    for s in sizes:
        c = rng.choice(["const", "ramp", "custom", "blackman", "kaiser", "interp", "composite"])
        if c == "composite" and s >= 2:
            parts.append(gen_spec(rng, "composite", s))
        elif c == "interp" and s < 6:
            parts.append(gen_leaf(rng, "custom", s))
        else:
            parts.append(gen_leaf(rng, c if c != "composite" else "ramp", s))
    return dict(c="composite", parts=parts)


def gen_ops(rng, spec, d) -> list[dict]:
    ops = [dict(op="samples")]
    pool = ["scale", "neg", "div", "chdur", "eq", "scale", "div"]
    for op in rng.sample(pool, 3):
        if op == "scale":
            ops.append(dict(op="scale", by=rng.choice([2.0, -1.0, 0.0, 0.5, -3.25, 1e-3, rng.uniform(-10, 10)])))
        elif op == "div":
            ops.append(dict(op="div", by=rng.choice([2.0, -1.0, 0.0, 0.5, -4.0, 3.0, rng.uniform(-10, 10)])))
        elif op == "neg":
            ops.append(dict(op="neg"))
        elif op == "chdur":
            ops.append(dict(op="chdur", new=rng.choice([1, 2, 3, d + 1, max(1, d - 1), 2 * d, rng.randrange(1, 60)])))
        elif op == "eq":
            ops.append(dict(op="eq", at=rng.randrange(0, 1000), factor=rng.choice([0.0, 0.4, -0.4, 2.5, -2.5, 1e4])))
    return ops


def gen_cases(rng, tier):
    thorough = tier == "thorough"
    # --- index: every duration 1..40 exhaustively, large ones on a boundary lattice
    for d in DURS:
        for i in range(-d - 2, d + 3):
            yield dict(k="index", d=d, i=i)
    for d in BIG:
        for i in [0, 1, -1, d - 1, d, -d, -d - 1, d + 1, d // 2, -(d // 2)] + [rng.randrange(-d - 3, d + 3) for _ in range(10)]:
            yield dict(k="index", d=d, i=i)
    # --- slices: exhaustive for short durations, lattice + random beyond
    for d in range(1, 8 if not thorough else 12):
        bounds = [None] + list(range(-d - 2, d + 3))
        for a in bounds:
            for b in bounds:
                yield dict(k="slice", d=d, start=a, stop=b, step=rng.choice([None, 1]))
        for st in (2, -1, 0, 3):
            yield dict(k="slice", d=d, start=rng.choice(bounds), stop=rng.choice(bounds), step=st)
    for d in DURS[7:] + BIG:
        lat = [None, 0, 1, -1, d - 1, d, d + 1, -d, -d - 1, -d + 1, d // 2, -(d // 2), 10 ** 9, -10 ** 9]
        for _ in range(12 if not thorough else 60):
            yield dict(k="slice", d=d, start=rng.choice(lat), stop=rng.choice(lat),
                       step=rng.choice([None, 1, None, 1, None, 1, 2, -1]))
    # --- waveform classes x durations x signs x ops
    reps = 5 if not thorough else 25
    for d in DURS + BIG:
        for cls in LEAF_CLASSES + ["composite"]:
            for _ in range(reps if d <= 257 else 1):
                spec = gen_spec(rng, cls, d)
                for op in gen_ops(rng, spec, d):
                    yield dict(k="wf", wf=spec, **op)
    # --- ramps with an end point (and hence a clipping bound) exactly at zero, from either side: the
    #     line `slope * (d - 1) + start` seldom rounds back to exactly 0, so only the clip keeps the
    #     samples inside [start, stop] (seeded change C16-clip-zero-upper-bound)
    for d in DURS + BIG:
        for a in (-TWO_PI, -12.5, -7.0, -0.1, 3.3, 0.7):
            for lo, hi in ((a, 0.0), (0.0, a), (a, -0.0)):
                yield dict(k="wf", op="samples", wf=dict(c="ramp", d=d, a=lo, b=hi))
    # --- malformed stream: rejected constructors
    for spec in [dict(c="const", d=0, v=1.0), dict(c="const", d=-3, v=1.0), dict(c="ramp", d=0, a=0.0, b=1.0),
                 dict(c="custom", xs=[]), dict(c="blackman", d=0, area=1.0), dict(c="kaiser", d=5, area=1.0, beta=-1.0),
                 dict(c="kaiser", d=0, area=1.0, beta=14.0), dict(c="composite", parts=[dict(c="const", d=3, v=1.0)]),
                 dict(c="composite", parts=[]),
                 dict(c="composite", parts=[dict(c="const", d=3, v=1.0), dict(c="ramp", d=0, a=0.0, b=1.0)])]:
        for op in (dict(op="samples"), dict(op="scale", by=2.0), dict(op="div", by=0.0)):
            yield dict(k="wf", wf=spec, **op)
    # --- interp1d with time fractions that do not span [0, 1] (samples are evaluated outside the data)
    for d in (10, 33):
        for interp in ("PchipInterpolator", "interp1d"):
            yield dict(k="wf", op="samples", wf=dict(c="interp", d=d, values=[1.0, 2.0, 0.5], times=[0.2, 0.5, 0.8],
                                                     interpolator=interp))
    # --- durations too short for the interpolation points (both interpolators), and the shortest that fits
    for interp in ("PchipInterpolator", "interp1d"):
        for d, values in ((1, [1.0, 2.0]), (2, [1.0, 2.0, 3.0]), (3, [1.0, 2.0, 3.0]), (2, [1.0, 2.0]),
                          (4, [0.5, -1.0, 2.0, 3.0, 1.0]), (5, [0.5, -1.0, 2.0, 3.0, 1.0])):
            yield dict(k="wf", op="samples", wf=dict(c="interp", d=d, values=values, times=None, interpolator=interp))
            yield dict(k="wf", op="chdur", new=d, wf=dict(c="interp", d=20, values=values, times=None,
                                                          interpolator=interp))
    # --- values far below the 9 decimals the samples are rounded to
    for scale in (1e-12, 1e-10, 1e-7, 1e-4):
        for d in (10, 40):
            yield dict(k="wf", op="samples", wf=dict(c="interp", d=d, values=[1 * scale, 2 * scale, -0.5 * scale],
                                                     times=None, interpolator="PchipInterpolator"))
    # --- from_max_val
    n_f = 250 if not thorough else 2500
    for cls in ("blackman", "kaiser"):
        for j in range(n_f):
            mv = 10 ** rng.uniform(-0.5, 2.3) * rng.choice([1, -1])
            ratio = rng.choice([rng.uniform(0.0002, 0.012), 10 ** rng.uniform(-3.3, 0.3)])   # area/max -> duration/420
            area = abs(mv) * ratio * (np.sign(mv) if rng.random() > 0.04 else -np.sign(mv))
            c = dict(k="fmv", cls=cls, max_val=float(mv), area=float(area))
            if cls == "kaiser":
                c["beta"] = rng.choice([14.0, 14.0, 0.0, 0.5, 2.0, 5.0, 8.6, 20.0, 30.0])
            yield c
    # --- pulses
    phases = [0.0, 1.0, -1.0, TWO_PI, -TWO_PI, 3 * TWO_PI + 0.25, 1e-20, -1e-20, -1e-17, np.nextafter(TWO_PI, 0),
              np.nextafter(TWO_PI, 7), np.pi, -np.pi, 100.5, -77.125]
    for j in range(700 if not thorough else 6000):
        d = rng.choice(DURS + [100])
        acls = rng.choice(["const", "ramp", "blackman", "kaiser", "custom", "interp", "composite"])
        amp = gen_spec(rng, acls, d)
        if rng.random() < 0.75:      # mostly non-negative amplitudes
            amp = make_nonneg(amp)
        dd = d if rng.random() < 0.9 else rng.choice([d + 1, max(1, d - 1)])
        det = gen_spec(rng, rng.choice(["const", "ramp", "custom", "composite"]), dd)
        yield dict(k="pulse", amp=amp, det=det, phase=float(rng.choice(phases + [rng.uniform(-20, 20)])),
                   post=float(rng.choice(phases + [rng.uniform(-20, 20)])))
    # --- arbitrary phase
    for d in DURS + [100, 1000]:
        for cls in ["custom", "const", "ramp", "interp", "composite", "blackman"]:
            if d > 100 and cls not in ("custom", "ramp"):
                continue
            for _ in range(2 if not thorough else 10):
                ph = gen_spec(rng, cls, d)
                yield dict(k="arb", amp=dict(c="const", d=d, v=pos(rng)), phase=ph, post=0.0,
                           via_sampler=(d in (1, 2, 3, 7, 16, 40)))


def make_nonneg(spec):
    c = spec["c"]
    s = dict(spec)
    if c == "const":
        s["v"] = abs(s["v"])
    elif c == "ramp":
        s["a"], s["b"] = abs(s["a"]), abs(s["b"])
    elif c == "custom":
        s["xs"] = [abs(x) for x in s["xs"]]
    elif c in ("blackman", "kaiser"):
        s["area"] = abs(s["area"])
    elif c == "interp":
        s["values"] = [abs(x) for x in s["values"]]
    elif c == "composite":
        s["parts"] = [make_nonneg(p) for p in s["parts"]]
    return s


# --------------------------------------------------------------------------
# shrinking
# --------------------------------------------------------------------------
def spec_candidates(spec):
    c = spec["c"]
    if c == "composite":
        for p in spec["parts"]:
            yield p
        if len(spec["parts"]) > 2:
            for i in range(len(spec["parts"])):
                yield dict(spec, parts=spec["parts"][:i] + spec["parts"][i + 1:])
        for i, p in enumerate(spec["parts"]):
            for q in spec_candidates(p):
                if q.get("c"):
                    yield dict(spec, parts=spec["parts"][:i] + [q] + spec["parts"][i + 1:])
        return
    if "d" in spec:
        for d in (1, 2, 3, 4, spec["d"] // 2, spec["d"] - 1):
            if 1 <= d < spec["d"]:
                yield dict(spec, d=d)
    if c == "custom" and len(spec["xs"]) > 1:
        yield dict(spec, xs=spec["xs"][: len(spec["xs"]) // 2])
        yield dict(spec, xs=spec["xs"][:-1])
        yield dict(spec, xs=spec["xs"][1:])
    for key in ("v", "a", "b", "area"):
        if key in spec:
            for v in (1.0, 0.0, 2.0):
                if spec[key] != v:
                    yield dict(spec, **{key: v})
    if c == "kaiser" and spec["beta"] != 14.0:
        yield dict(spec, beta=14.0)


def case_candidates(case):
    k = case["k"]
    if k == "wf":
        if case["op"] != "samples":
            yield dict(k="wf", wf=case["wf"], op="samples")
        for s in spec_candidates(case["wf"]):
            yield dict(case, wf=s)
        for key, vals in (("by", (2.0, -1.0)), ("new", (1, 2, 3)), ("factor", (0.0,))):
            if key in case:
                for v in vals:
                    if case[key] != v:
                        yield dict(case, **{key: v})
    elif k in ("pulse", "arb"):
        for fld in ("amp", "det", "phase"):
            if isinstance(case.get(fld), dict):
                for s in spec_candidates(case[fld]):
                    c2 = dict(case, **{fld: s})
                    # keep the durations aligned when shrinking a `d`
                    if "d" in s and k == "arb" and fld == "phase":
                        c2["amp"] = dict(c="const", d=s["d"], v=1.0)
                    yield c2
        if k == "pulse":
            for fld in ("phase", "post"):
                if case[fld] != 0.0:
                    yield dict(case, **{fld: 0.0})
        if k == "arb" and case.get("via_sampler"):
            yield dict(case, via_sampler=False)
    elif k == "fmv":
        for v in (1.0, 10.0):
            if abs(case["max_val"]) != v:
                yield dict(case, max_val=math.copysign(v, case["max_val"]))


def shrink(case, pred, budget=200):
    """Greedy: replace the case by a simpler candidate as long as `pred` still holds."""
    cur = case
    progress = True
    while progress and budget > 0:
        progress = False
        for cand in case_candidates(cur):
            budget -= 1
            if budget <= 0:
                break
            try:
                ok = pred(cand)
            except Exception:  # noqa: BLE001
                ok = False
            if ok:
                cur, progress = cand, True
                break
    return cur


# --------------------------------------------------------------------------
# orchestration
# --------------------------------------------------------------------------
def lean_obligations():
    ok, out = common.lake_build(LEAN_TARGETS)
    if not ok:
        raise InfraError("lake build failed (hand-written files):\n" + out[-3000:])
    thms = common.property_theorems(PROP)
    bad = [h for h in common.lean_forbidden_tokens()
           if h.split(":")[0] in ("PulserModel/Waveform.lean", "Proofs/Waveform.lean", "Properties/C16.lean",
                                  "Driver/WaveMain.lean")]
    if bad:
        raise InfraError("forbidden tokens in Lean sources: " + "; ".join(bad[:5]))
    axioms = common.audit_axioms(f"Properties.{PROP}", thms) if thms else {}
    offending = {t: axioms.get(t) for t in thms
                 if axioms.get(t) is None or not set(axioms[t]) <= common.ALLOWED_AXIOMS}
    if offending:
        raise InfraError(f"axiom audit failed: {offending}")
    return thms, axioms, len(thms) - len(offending)


def corpus_cases():
    d = common.CORPUS / PROP
    out = []
    if d.exists():
        for f in sorted(d.glob("*.json")):
            item = json.loads(f.read_text())
            for c in item.get("cases", [item] if "k" in item else []):
                out.append((f.name, c))
    return out


def case_class(case) -> str:
    k = case["k"]
    if k == "wf":
        return f"wf:{case['wf']['c']}:{case['op']}"
    if k == "fmv":
        return f"fmv:{case['cls']}"
    if k == "arb":
        return f"arb:{case['phase']['c']}"
    return k


def case_duration(case):
    def dur(spec):
        if spec["c"] == "custom":
            return len(spec["xs"])
        if spec["c"] == "composite":
            return sum(dur(p) for p in spec["parts"])
        return spec["d"]
    k = case["k"]
    if k in ("index", "slice"):
        return case["d"]
    if k == "wf":
        return dur(case["wf"])
    if k == "pulse":
        return dur(case["amp"])
    if k == "arb":
        return dur(case["phase"])
    return None


def bucket(d):
    if d is None:
        return "n/a"
    if d <= 3:
        return str(d)
    if d <= 40:
        return "4-40"
    return ">40"


def all_findings() -> list[dict]:
    """known_findings.jsonl, plus (for trying proposed entries before they are integrated) the file
    named by $VERIF_KNOWN_FINDINGS_EXTRA."""
    import os

    out = load_known_findings()
    extra = os.environ.get("VERIF_KNOWN_FINDINGS_EXTRA")
    if extra and Path(extra).exists():
        out += [json.loads(x) for x in Path(extra).read_text().splitlines() if x.strip() and not x.startswith("#")]
    return out


def check(tier: str, seed: int) -> int:
    timer = Timer()
    thms, axioms, discharged = lean_obligations()
    rng = random.Random(f"{PROP}-{seed}")
    drv = Driver("pm_wave")
    findings = all_findings()
    kinds = collections.Counter()
    durs = collections.Counter()
    outcomes = collections.Counter()
    known_hits = collections.Counter()
    distinct = set()
    nontrivial = 0
    evaluations = 0
    samples = []
    violations = []
    divergences = []
    seen = set()

    def handle(case, origin):
        nonlocal evaluations, nontrivial
        evaluations += 1
        fails, div, nt = run_case(drv, case)
        cc = case_class(case)
        kinds[cc] += 1
        durs[bucket(case_duration(case))] += 1
        canon = json.dumps(case, sort_keys=True)
        if canon not in distinct:
            distinct.add(canon)
            if nt:
                nontrivial += 1
        outcomes["nontrivial" if nt else "rejected/error"] += 1
        if len(samples) < 6 and nt and cc not in {case_class(s) for s in samples} and case_duration(case) and case_duration(case) <= 8:
            samples.append(case)
        for f in fails:
            kf = match_known(PROP, f.key, findings)
            if kf is not None:
                known_hits[findings.index(kf)] += 1
                continue
            sig = json.dumps(f.key, sort_keys=True)
            if sig in seen:
                continue
            seen.add(sig)

            def pred(c, key=f.key):
                fs, _, _ = run_case(None, c)
                return any(x.key == key or (x.clause == key["clause"] and x.key.get("cls") == key.get("cls")
                                            and "duration" not in key) for x in fs)
            small = shrink(case, pred)
            fs2, _, _ = run_case(None, small)
            f2 = next((x for x in fs2 if x.clause == f.clause), f)
            violations.append(dict(property=PROP, kind="monitor", clause=f2.clause, message=f2.msg, key=f2.key,
                                   case=small, original=case, origin=origin))
        if div is not None and not fails:
            divergences.append(dict(case=case, why=div, origin=origin))

    hyp = blackman_sum_hypothesis(3000)
    for f in hyp:
        violations.append(dict(property=PROP, kind="hypothesis", clause=f.clause, message=f.msg, key=f.key,
                               case=dict(k="hypothesis"), theorem="C16.blackman_search_minimal"))
    for name, c in corpus_cases():
        handle(c, f"corpus/{name}")
    for c in gen_cases(rng, tier):
        handle(c, "generated")
    # tie broken without a failing input: look for one with the monitor, near the divergent cases
    if divergences and not violations:
        d0 = divergences[0]
        before = len(violations)
        rng2 = random.Random(f"{PROP}-{seed}-search")
        extra = 0
        for c in gen_cases(rng2, tier):
            if case_class(c) == case_class(d0["case"]) or c["k"] == d0["case"]["k"]:
                handle(c, "search")
                extra += 1
                if len(violations) > before or extra > (2000 if tier == "quick" else 20000):
                    break
        if len(violations) == before:
            def dpred(c):
                _, dv, _ = run_case(drv, c)
                return dv is not None
            small = shrink(d0["case"], dpred)
            _, why, _ = run_case(drv, small)
            violations.append(dict(property=PROP, kind="correspondence", no_failing_input_found=True,
                                   broken="model/implementation correspondence (lean/PulserModel/Waveform.lean vs "
                                          f"/repo waveforms.py / pulse.py): {why or d0['why']}",
                                   theorems=thms, case=small, original=d0["case"],
                                   n_divergent=len(divergences)))
    drv.close()
    ev = dict(
        property_id=PROP, tier=tier, seed=seed, level="other",
        coverage=dict(
            explanation="PARTIAL. Lean theorems over Q (Properties/C16.lean) carry: index/slice semantics, "
                        "sample count, constant/custom/composite/ramp values (d >= 2), window area, scaling / "
                        "negation / division laws, change_duration, ArbitraryPhase reconstruction (telescoping), "
                        "phase range, pulse invariants, Blackman max-value search (ideal window sum as hypothesis). "
                        "The model is tied to /repo by a per-run differential run through pm_wave; every clause, "
                        "including the float-only ones (uncovered_clauses), is validated numerically on the real "
                        "objects by the monitor - validation, not proof.",
            uncovered_clauses=UNCOVERED,
            obligations=len(thms), discharged=discharged, theorems=thms, axioms=axioms,
            checker_cmd="lake build " + " ".join(LEAN_TARGETS) + " && #print axioms (harness/common.py audit_axioms)",
            trusted_base=TRUSTED_BASE,
            evaluations=evaluations, distinct_nontrivial=nontrivial,
            traces_validated_against_impl=len(distinct),
            rule="cases = corpus + generator (index: every i in [-d-2, d+2] for d = 1..40 and a lattice for large d; "
                 "slices: exhaustive bounds for short d, boundary lattice beyond; every waveform class x duration "
                 "1..40 + {41,64,100,257,1000} x parameter signs x {samples, scale, neg, div, change_duration, eq}; "
                 "from_max_val; pulses; arbitrary phase). distinct = distinct JSON case; non-trivial = the real "
                 "code built the object / returned a value (not a rejected constructor or IndexError) so that "
                 "values were actually compared",
            samples=samples,
            case_histogram=dict(kinds), duration_histogram=dict(durs), outcome_histogram=dict(outcomes),
            divergences=len(divergences), known_findings_hit={findings[i]["id"]: n for i, n in known_hits.items()},
            tolerances=dict(correspondence_rel=REL, interpolated_abs=ROUND_ABS, area_rel=1e-9, phase_abs=1e-9),
            repo_fingerprint=common.repo_fingerprint(),
        ),
        assumptions=TRUSTED_BASE,
        wall_s=timer.s(), violations=len(violations),
    )
    write_evidence(PROP, ev)
    for idx, n in known_hits.items():
        kf = findings[idx]
        print(f"KNOWN-FINDING: property={PROP} {kf['what']} (hit {n}x)")
    if violations:
        for v in violations:
            p = write_replay(PROP, v)
            tail = " no-failing-input-found" if v.get("no_failing_input_found") else ""
            print(f"VIOLATION property={PROP} replay={p}{tail}")
        return 1
    print(f"OK property={PROP} tier={tier} theorems={discharged}/{len(thms)} cases={evaluations} "
          f"distinct_nontrivial={nontrivial} wall={timer.s()}s")
    return 0


def replay(path: str) -> int:
    item = json.loads(Path(path).read_text())
    cases = item.get("cases") or [item["case"] if "case" in item else item]
    drv = Driver("pm_wave")
    findings = all_findings()
    bad = False
    for c in cases:
        if c.get("k") == "hypothesis":
            fails, div = blackman_sum_hypothesis(3000), None
        else:
            fails, div, _ = run_case(drv, c)
        print(f"case {json.dumps(c)[:300]}")
        for f in fails:
            kf = match_known(PROP, f.key, findings)
            print(f"  monitor: {f.clause}: {f.msg}" + (f"  [known finding {kf['id']}]" if kf else ""))
            bad = bad or kf is None
        if div:
            print(f"  model/implementation divergence: {div}")
            bad = True
        if not fails and not div:
            print("  holds (monitor and correspondence)")
    drv.close()
    if bad:
        print(f"VIOLATION property={PROP} replay={path}")
        return 1
    print("replay: property holds on this case")
    return 0
