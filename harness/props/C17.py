"""C17 — devices, registers, layouts, noise models, configs, results round-trip.

check(tier, seed):
  1. regenerate lean/PulserModel/Generated/Fields.lean from the live code (harness/tables_c17.py);
  2. lake build (model, generated tables, proofs, Properties.C17 with its `decide`s over the tables, pm_codec);
     a failure located in a table side-condition (or a table that cannot be extracted) is a *broken tie*:
     the object monitor searches for a concrete object that no longer round-trips;
  3. axiom audit + forbidden tokens;
  4. corpus, then generated objects per class family: real code (to_abstract_repr -> independent schema
     validation -> from_abstract_repr, legacy encoder for devices) against the model (pm_codec) on the same
     inputs, and the monitor (== and field-wise equality, noise-type relation, SimConfig conversion,
     aliasing) on the real objects;
  5. evidence.
"""
from __future__ import annotations

import collections
import copy
import json
import os
import random
import re
import warnings
from pathlib import Path

import common
from common import Driver, InfraError, Timer, load_known_findings, match_known, write_evidence, write_replay
import tables_c17 as tb
import c17_gen as g

PROP = "C17"
TARGETS = ["PulserModel.Codec", "PulserModel.Generated.Fields", "Proofs.Codec", "Properties.C17", "pm_codec"]
TARGETS_MODEL = ["PulserModel.Codec", "PulserModel.Generated.Fields", "pm_codec"]
# theorems of Properties/C17.lean that are `decide`s over generated tables (translator tie)
TIE_THEOREMS = {"tables_ok_rydberg", "tables_ok_raman", "tables_ok_microwave", "tables_ok_dmm", "tables_ok_eom",
                "tables_ok_layout", "tables_ok_device", "tables_ok_virtual_device", "channel_tables_ok",
                "device_tables_ok", "noise_tables_ok"}

COUNTS = {  # objects per family
    "quick": dict(channel=800, device=500, layout=1000, noise=1000, simconfig=800, register=1000, detmap=1000,
                  config=700, results=1000, stateop=600, configalias=300),
    "thorough": dict(channel=8000, device=6000, layout=10000, noise=10000, simconfig=6000, register=10000,
                     detmap=10000, config=8000, results=10000, stateop=6000, configalias=3000),
}

TRUSTED_BASE = [
    "Lean 4.33 kernel; axioms allowed: propext, Classical.choice, Quot.sound (audited per theorem)",
    "statements in lean/Properties/C17.lean say what the property says (records = dataclass fields; values are "
    "JSON-like with exact rationals)",
    "harness/tables_c17.py: reflection/AST/probing translator that writes PulserModel/Generated/Fields.lean "
    "(self-tested against the live encoders' key sets on every run)",
    "hand-written model lean/PulserModel/Codec.lean corresponds to /repo (checked on the generated objects by "
    "driver-vs-real comparison of encodings and decodings, not proved)",
    "harness/c17_gen.py adapters (object -> canonical value, spec -> object), Driver/CodecMain.lean parser",
    "jsonschema + referencing (independent schema validation), CPython json float round-trip",
]

UNCOVERED = [
    "value-level schema constraints (types, const, nullability): checked by jsonschema on every generated "
    "object, not by a theorem (the theorem covers key sets only)",
    "registers, detuning maps, emulation configurations (observables, states, operators) and results: "
    "correspondence-free object round-trip monitor only (no Lean model)",
    "NoiseModel JSON round-trip: theorem noise_roundtrip holds under the proviso that parameters no active noise "
    "type uses are unset (the code violates the unrestricted statement: finding C17-F3, Lean counterexample)",
    "SimConfig keeps the temperature in K as a float (value/1e6): the theorem is over Q; the monitor requires "
    "the value back in the NoiseModel to be exactly the original (C17-F11, repaired) and the intermediate K value "
    "to agree within rtol 1e-12",
    "states and operators on their own (per-instance amplitudes/operations/eigenstates, independent of the caller's "
    "containers): monitor only",
    "aliasing clause (objects never share state): monitor only — Python object identity / class attributes / "
    "mutable defaults are outside the Lean model",
    "legacy encoder (PulserEncoder/PulserDecoder) for devices: monitor only",
    "Device.short_description is excluded from the theorem's domain (WellTyped.skipped) — reported as a finding",
]


# --------------------------------------------------------------------------------------
# model side
# --------------------------------------------------------------------------------------
class Model:
    def __init__(self):
        self.drv = Driver("pm_codec")
        self.in_domain = collections.Counter()
        self.asked = 0

    def close(self):
        self.drv.close()

    def enc(self, kind, value):
        r = self.drv.ask(f"enc {kind} {tb.wire(value)}")
        self.asked += 1
        if not r.startswith("ok "):
            raise InfraError(f"driver: {r} on enc {kind}")
        dom, rest = r[3:].split(" ", 1)
        self.in_domain[(kind, dom)] += 1
        return dom == "1", tb.unwire(rest)

    def dec(self, kind, value):
        r = self.drv.ask(f"dec {kind} {tb.wire(value)}")
        self.asked += 1
        if r == "none":
            return None
        if not r.startswith("ok "):
            raise InfraError(f"driver: {r} on dec {kind}")
        return tb.unwire(r[3:])

    def call(self, op, value):
        r = self.drv.ask(f"{op} {tb.wire(value)}")
        self.asked += 1
        if not r.startswith("ok "):
            raise InfraError(f"driver: {r} on {op}")
        return tb.unwire(r[3:])


class Divergence:
    def __init__(self, what: str, detail: str):
        self.what, self.detail = what, detail

    def __repr__(self):
        return f"{self.what}: {self.detail}"


def _cmp(what, model_v, real_v) -> list[Divergence]:
    if tb.value_key(model_v) == tb.value_key(real_v):
        return []
    return [Divergence(what, f"model/real differ at {g.diff_values(model_v, real_v)[:4]}")]


def _approx(a, b) -> bool:
    """Model value (exact) vs real value (floats) with rtol 1e-12 on numbers."""
    if a[0] == "num" and b[0] == "num":
        x, y = float(a[1]), float(b[1])
        return abs(x - y) <= 1e-12 * max(abs(x), abs(y))
    if a[0] != b[0]:
        return False
    if a[0] == "list":
        return len(a[1]) == len(b[1]) and all(_approx(x, y) for x, y in zip(a[1], b[1]))
    if a[0] == "obj":
        da, db = dict(a[1]), dict(b[1])
        return set(da) == set(db) and all(_approx(da[k], db[k]) for k in da)
    return a == b


def noise_args_value(spec):
    """Constructor arguments of a noise spec as a record in (documented) signature order, documented defaults
    filled in — not read from the live signature."""
    kvs = []
    for name in g.SPEC_NOISE_PARAMS:
        v = spec["kw"].get(name, g.SPEC_NOISE_DEFAULTS.get(name))
        if name == "eff_noise_opers":
            v = [[[g._cplx(e) for e in row] for row in op] for op in v]
        if name == "eff_noise_rates":
            v = [float(r) for r in v]
        kvs.append((name, tb.to_value(list(v) if isinstance(v, tuple) else v)))
    return tb.vobj(kvs)


def correspond(model: Model, family: str, spec, obj, s, dec, extra) -> list[Divergence]:
    """Model and implementation on the same inputs."""
    out: list[Divergence] = []
    if model is None:
        return out
    with warnings.catch_warnings():
        warnings.simplefilter("ignore")
        if family == "channel" and s is not None:
            from pulser.channels import DMM

            j = json.loads(s)
            is_dmm = isinstance(obj, DMM)
            chj = (j["dmm_objects"] if is_dmm else j["channels"])[0]
            cid = "dmm_0" if is_dmm else "the_id"
            _, mj = model.enc("channel", tb.channel_value(obj, cid))
            out += _cmp("encode channel", mj, tb.json_value(chj))
            if dec is not None:
                md = model.dec("channel", tb.json_value(chj))
                out += _cmp("decode channel", md if md is not None else tb.NULL, tb.channel_value(dec, cid))
        elif family == "device" and s is not None:
            j = json.loads(s)
            _, mj = model.enc("device", tb.device_value(obj))
            out += _cmp("encode device", mj, tb.json_value(j))
            if dec is not None:
                md = model.dec("device", tb.json_value(j))
                out += _cmp("decode device", md if md is not None else tb.NULL, tb.device_value(dec))
        elif family == "layout" and s is not None:
            j = json.loads(s)
            _, mj = model.enc("layout", tb.layout_value(obj))
            out += _cmp("encode layout", mj, tb.json_value(j))
            if dec is not None:
                md = model.dec("layout", tb.json_value(j))
                out += _cmp("decode layout", md if md is not None else tb.NULL, tb.layout_value(dec))
        elif family == "noise":
            mi = model.call("ninit", noise_args_value(spec))
            out += _cmp("NoiseModel.__init__", mi, tb.noise_value(obj))
            rel = type(obj)._find_relevant_params(obj.noise_types, obj.state_prep_error, obj.amp_sigma,
                                                  obj.laser_waist)
            mr = model.call("nrel", tb.noise_value(obj))
            params = [k for k, _ in noise_args_value(spec)[1]]
            out += _cmp("_find_relevant_params", mr, tb.to_value([p for p in params if p in rel]))
            if s is not None:
                j = json.loads(s)
                _, mj = model.enc("noise", tb.noise_value(obj))
                out += _cmp("encode noise", mj, tb.json_value(j))
                if dec is not None:
                    md = model.dec("noise", tb.json_value(j))
                    out += _cmp("decode noise", md if md is not None else tb.NULL, tb.noise_value(dec))
        elif family == "simconfig" and extra.get("sc") is not None:
            sc, back = extra["sc"], extra["back"]
            ms = model.call("simfrom", tb.noise_value(obj))
            real = []
            for k, _ in ms[1]:
                v = getattr(sc, k)
                if k == "eff_noise_opers":
                    v = [op.full().tolist() for op in v]
                real.append((k, tb.to_value(list(v) if isinstance(v, tuple) else v)))
            msd = dict(ms[1])
            if "laser_waist" not in msd and "amplitude" in obj.noise_types and sc.laser_waist != float("inf"):
                out.append(Divergence("SimConfig.from_noise_model", "laser_waist should default to inf"))
            if not _approx(ms, tb.vobj(real)):
                out.append(Divergence("SimConfig.from_noise_model",
                                      f"kwargs differ at {g.diff_values(ms, tb.vobj(real))[:4]}"))
            mb = model.call("simto", ms)
            if not _approx(mb, tb.noise_value(back)):
                out.append(Divergence("SimConfig.to_noise_model",
                                      f"differ at {g.diff_values(mb, tb.noise_value(back))[:4]}"))
    return out


# --------------------------------------------------------------------------------------
# one case
# --------------------------------------------------------------------------------------
class CaseResult:
    def __init__(self):
        self.fails: list[g.Fail] = []
        self.divs: list[Divergence] = []
        self.obj = None
        self.dec = None
        self.json = None
        self.build_error = None


def legacy_device_roundtrip(spec, obj) -> list[g.Fail]:
    """Legacy format: virtual devices are rebuilt from their parameters, physical ones are referenced by
    name (only the library's own devices can be)."""
    from pulser.json.coders import PulserDecoder, PulserEncoder

    if not spec.get("virtual") and "builtin" not in spec:
        return []
    try:
        with warnings.catch_warnings():
            warnings.simplefilter("ignore")
            s = json.dumps(obj, cls=PulserEncoder)
            back = json.loads(s, cls=PulserDecoder)
    except Exception as e:  # noqa: BLE001
        case = "default_noise_model" if (obj.default_noise_model is not None and "NoiseModel" in str(e)) else None
        return [g.Fail("legacy", g._key("device", spec, "legacy", exc=type(e).__name__, case=case),
                       f"legacy encoder raised {type(e).__name__}: {str(e)[:200]}")]
    if True:
        diffs = g.diff_values(tb.device_value(obj), tb.device_value(back))
        if diffs or back != obj:
            f = sorted({d.split(".")[1].split("[")[0] for d in diffs}) or ["=="]
            return [g.Fail("legacy", g._key("device", spec, "legacy", field=f[0]),
                           f"legacy round trip differs at {diffs[:3]}")]
    return []


def run_case(model: Model | None, family: str, spec) -> CaseResult:
    res = CaseResult()
    try:
        obj = g.build(family, spec)
    except Exception as e:  # noqa: BLE001  (the generators only emit specs that are valid by the documented rules)
        res.build_error = f"{type(e).__name__}: {str(e)[:200]}"
        res.fails = [g.construct_fail(family, spec, e)]
        return res
    res.obj = obj
    extra: dict = {}
    if family == "stateop":
        res.fails = g.run_stateop(spec)
        return res
    if family == "configalias":
        res.fails = g.run_configalias(spec)
        return res
    if family == "simconfig":
        res.fails, extra = g.monitor_simconfig(spec, obj)
        res.divs = correspond(model, family, spec, obj, None, None, extra)
        return res
    s, dec, fails = g.roundtrip(family, spec, obj)
    res.json, res.dec, res.fails = s, dec, list(fails)
    res.fails += g.monitor_json_ids(family, spec, s)
    if dec is not None:
        res.fails += g.monitor_roundtrip(family, spec, obj, dec)
        if "builtin" not in spec:
            res.fails += g.monitor_spec(family, spec, dec)
    if family == "noise":
        res.fails += g.monitor_noise_types(spec, obj)
        res.fails += g.monitor_relevance(spec, obj)
    if family == "device":
        res.fails += legacy_device_roundtrip(spec, obj)
    res.divs = correspond(model, family, spec, obj, s, dec, extra)
    return res


# --------------------------------------------------------------------------------------
# shrinking
# --------------------------------------------------------------------------------------
def _candidates(spec):
    """Smaller variants of a spec (one step)."""
    if isinstance(spec, dict):
        for k, v in spec.items():
            if k in ("kw", "extra") and isinstance(v, dict):
                for kk in list(v):
                    c = copy.deepcopy(spec)
                    del c[k][kk]
                    yield c
            elif isinstance(v, list) and v and k in ("channels", "dmms", "layouts", "observables", "entries",
                                                     "coords", "weights", "trap_ids", "ids"):
                for i in range(len(v)):
                    c = copy.deepcopy(spec)
                    del c[k][i]
                    if k == "coords" and "weights" in c:
                        del c["weights"][i]
                    if k == "trap_ids" and "ids" in c and len(c["ids"]) > i:
                        del c["ids"][i]
                    if k == "channels" and c.get("channel_ids"):
                        del c["channel_ids"][i]
                    yield c
            elif k in ("noise", "eom", "initial_state", "interaction_matrix", "channel_ids") and v is not None:
                c = copy.deepcopy(spec)
                if k in ("initial_state", "interaction_matrix"):
                    del c[k]
                else:
                    c[k] = None
                yield c
            if isinstance(v, (dict, list)) and k not in ("kw",):
                items = v.items() if isinstance(v, dict) else enumerate(v)
                for kk, vv in list(items):
                    if isinstance(vv, (dict, list)):
                        for sub in _candidates(vv):
                            c = copy.deepcopy(spec)
                            c[k][kk] = sub
                            yield c
    elif isinstance(spec, list):
        for i, v in enumerate(spec):
            if isinstance(v, (dict, list)):
                for sub in _candidates(v):
                    c = copy.deepcopy(spec)
                    c[i] = sub
                    yield c


def shrink(family, spec, pred, budget=150):
    cur = spec
    steps = 0
    improved = True
    while improved and steps < budget:
        improved = False
        for cand in _candidates(cur):
            steps += 1
            if steps >= budget:
                break
            try:
                if pred(cand):
                    cur = cand
                    improved = True
                    break
            except Exception:  # noqa: BLE001
                continue
    return cur


# --------------------------------------------------------------------------------------
# build / audit
# --------------------------------------------------------------------------------------
def _theorem_at(lines: list[str], lineno: int) -> str | None:
    for i in range(min(lineno, len(lines)) - 1, -1, -1):
        m = re.match(r"\s*theorem\s+(\S+)", lines[i])
        if m:
            return m.group(1)
        if re.match(r"\s*example\b", lines[i]):
            # every `example` that can be affected by the source is stated over Generated.* (tables and probe
            # records); the others are over frozen, hand-written tables
            return f"example@{i + 1}"
    return None


def classify_build_failure(out: str) -> tuple[bool, list[str]]:
    """(is a broken tie?, names of the table obligations / files that no longer check)."""
    src = (common.LEAN_DIR / "Properties" / "C17.lean").read_text().splitlines()
    broken, other = [], []
    for m in re.finditer(r"error: (\S+?\.lean):(\d+):(\d+)", out):
        f, ln = m.group(1), int(m.group(2))
        if f.endswith("Properties/C17.lean"):
            th = _theorem_at(src, ln)
            (broken if (th in TIE_THEOREMS or (th or "").startswith("example@")) else other).append(
                th or f"{f}:{ln}")
        elif f.endswith("Generated/Fields.lean"):
            broken.append(f"Generated/Fields.lean:{ln}")
        else:
            other.append(f"{f}:{ln}")
    return bool(broken) and not other, sorted(set(broken)) or sorted(set(other))


def lean_obligations():
    thms = common.property_theorems(PROP)
    bad = common.lean_forbidden_tokens()
    if bad:
        raise InfraError("forbidden tokens in Lean sources: " + "; ".join(bad[:5]))
    try:
        axioms = common.audit_axioms(f"Properties.{PROP}", thms) if thms else {}
    except InfraError as e:
        # the audit runs outside the build lock: a concurrent run that regenerates the tables (seeded-change
        # tooling) can remove the .olean between our build and our audit -> rebuild once and retry
        if "does not exist" not in str(e):
            raise
        ok, out = common.lake_build(TARGETS)
        if not ok:
            raise InfraError("lake build failed on retry:\n" + out[-2000:]) from e
        axioms = common.audit_axioms(f"Properties.{PROP}", thms)
    discharged, offending = 0, {}
    for t in thms:
        ax = axioms.get(t)
        if ax is not None and set(ax) <= common.ALLOWED_AXIOMS:
            discharged += 1
        else:
            offending[t] = ax
    if offending:
        raise InfraError(f"axiom audit failed: {offending}")
    return thms, axioms, discharged


# --------------------------------------------------------------------------------------
# check
# --------------------------------------------------------------------------------------
def corpus_items():
    d = common.CORPUS / PROP
    out = []
    if d.exists():
        for f in sorted(d.glob("*.json")):
            item = json.loads(f.read_text())
            item["_file"] = f.name
            out.append(item)
    return out


def _findings():
    fs = load_known_findings()
    extra = os.environ.get("C17_EXTRA_FINDINGS")  # development aid: proposed lines not yet integrated
    if extra and Path(extra).exists():
        for line in Path(extra).read_text().splitlines():
            if line.strip() and not line.startswith("#"):
                fs.append(json.loads(line))
    return fs


def check(tier: str, seed: int) -> int:
    timer = Timer()
    g.install_check_schema_memo()
    tie_broken: list[dict] = []
    # 1. translator tie
    try:
        _, changed = tb.regenerate()
    except tb.TableError as e:
        tie_broken.append(dict(kind="table-extraction", table="PulserModel/Generated/Fields.lean", what=str(e)))
        changed = False
    # 2. build
    ok, out = common.lake_build(TARGETS)
    model_ok = ok
    if not ok:
        is_tie, names = classify_build_failure(out)
        if not is_tie:
            raise InfraError("lake build failed in hand-written files " + ", ".join(names) + ":\n" + out[-2500:])
        tie_broken.append(dict(kind="table-side-condition", theorems=names,
                               table="PulserModel/Generated/Fields.lean",
                               what="`decide` over the regenerated tables no longer holds",
                               lean_output=out[-1500:]))
        model_ok, out2 = common.lake_build(TARGETS_MODEL)
    # 3. audit
    if ok:
        thms, axioms, discharged = lean_obligations()
    else:
        thms, axioms, discharged = common.property_theorems(PROP), {}, 0
    model = Model() if model_ok else None

    rng = random.Random(f"{PROP}-{seed}")
    findings = _findings()
    counts = dict(COUNTS[tier])
    if tie_broken:  # search harder where the tie is
        for fam in ("channel", "device", "layout", "noise"):
            counts[fam] = int(counts[fam] * (1.2 if tier == "quick" else 2))
    stats = dict(family=collections.Counter(), cls=collections.Counter(), build_errors=collections.Counter(),
                 optional_default=collections.Counter(), optional_nondefault=collections.Counter(),
                 fail_clauses=collections.Counter(), noise_types=collections.Counter(),
                 sizes=collections.Counter())
    distinct: dict[str, set] = collections.defaultdict(set)
    nontrivial = 0
    evaluations = 0
    samples = []
    violations: list[dict] = []
    divergences: list[dict] = []
    known_hits = collections.Counter()
    seen_keys = set()

    def note_distribution(family, spec, obj):
        nonlocal nontrivial
        c = common_json(spec)
        if c in distinct[family]:
            return
        distinct[family].add(c)
        stats["family"][family] += 1
        stats["cls"][g._key(family, spec, "x")["class"]] += 1
        nt = False
        if family in ("channel",):
            for k in ("min_avg_amp", "custom_phase_jump_time", "propagation_dir", "total_bottom_detuning"):
                if k in spec["kw"]:
                    (stats["optional_nondefault"] if spec["kw"][k] not in (None, 0, 0.0)
                     else stats["optional_default"])[f"{spec['cls']}.{k}"] += 1
                    nt = nt or spec["kw"][k] not in (None, 0, 0.0)
            if spec.get("eom"):
                stats["sizes"]["channel_with_eom"] += 1
                nt = True
        elif family == "device":
            if "builtin" in spec:
                stats["sizes"]["builtin:" + spec["builtin"]] += 1
                nontrivial += 1
                return
            stats["sizes"][f"channels={len(spec['channels'])}"] += 1
            stats["sizes"][f"dmms={'default' if spec['dmms'] is None else len(spec['dmms'])}"] += 1
            stats["sizes"][f"layouts={len(spec['layouts'])}"] += 1
            stats["sizes"]["noise_model" if spec["noise"] else "no_noise_model"] += 1
            nt = bool(spec["channels"] or spec["dmms"] or spec["layouts"] or spec["noise"])
        elif family in ("noise", "simconfig"):
            for t in obj.noise_types:
                stats["noise_types"][t] += 1
            nt = bool(obj.noise_types) or bool(spec["kw"])
        elif family == "config":
            stats["sizes"][f"observables={len(spec['observables'])}"] += 1
            for o in spec["observables"]:
                stats["sizes"]["obs:" + o["kind"]] += 1
            nt = bool(spec["observables"]) or "initial_state" in spec
        elif family == "results":
            for e in spec["entries"]:
                stats["sizes"]["result:" + e["kind"]] += 1
            nt = bool(spec["entries"])
        elif family == "register":
            stats["sizes"][f"register{spec['dim']}D" + ("+layout" if spec["layout"] else "")] += 1
            nt = True
        else:
            nt = True
        if nt:
            nontrivial += 1

    def handle(family, spec, res: CaseResult, origin: str):
        nonlocal evaluations
        evaluations += 1
        if res.build_error:
            stats["build_errors"][res.build_error.split(":")[0]] += 1
        else:
            note_distribution(family, spec, res.obj)
        if len(samples) < 6 and origin == "generated" and not any(x["family"] == family for x in samples):
            samples.append(dict(family=family, spec=spec, json=(res.json or "")[:400]))
        for f in res.fails:
            stats["fail_clauses"][f.clause] += 1
            kf = match_known(PROP, f.key, findings)
            if kf is not None:
                known_hits[kf["id"]] += 1
                continue
            sig = json.dumps(f.key, sort_keys=True)
            if sig in seen_keys:
                continue
            seen_keys.add(sig)

            def pred(cand, key=f.key):
                r = run_case(None, family, cand)
                return any(ff.key == key for ff in r.fails)
            small = shrink(family, spec, pred)
            violations.append(dict(property=PROP, kind="monitor", family=family, clause=f.clause, key=f.key,
                                   message=f.msg, spec=small, origin=origin))
        for d in res.divs:
            divergences.append(dict(family=family, spec=spec, what=d.what, detail=d.detail))

    prev: dict[str, tuple] = {}

    def aliasing_step(family, spec, res: CaseResult):
        """`prev[family]` was built earlier; this case constructed and decoded another object of the class."""
        if res.obj is None or family in ("simconfig", "stateop", "configalias"):
            return
        if family in prev:
            pspec, pobj, psnap = prev[family]
            fails = g.monitor_aliasing(family, pspec, pobj, psnap, "constructing/decoding another object")
            if fails:
                r2 = CaseResult()
                r2.obj = pobj
                r2.fails = fails
                # replay payload: the pair
                for f in fails:
                    stats["fail_clauses"][f.clause] += 1
                    kf = match_known(PROP, f.key, findings)
                    if kf is not None:
                        known_hits[kf["id"]] += 1
                        continue
                    sig = json.dumps(f.key, sort_keys=True)
                    if sig in seen_keys:
                        continue
                    seen_keys.add(sig)
                    violations.append(dict(property=PROP, kind="monitor", family=family, clause="aliasing",
                                           key=f.key, message=f.msg, spec=pspec, then=spec, origin="generated"))
        with warnings.catch_warnings():
            warnings.simplefilter("ignore")
            prev[family] = (spec, res.obj, g.deep_snapshot(family, res.obj))

    # 4a. corpus
    for item in corpus_items():
        if item.get("family") not in g.FAMILIES:
            continue
        res = run_case(model, item["family"], item["spec"])
        handle(item["family"], item["spec"], res, "corpus")
        aliasing_step(item["family"], item["spec"], res)
        if "then" in item:
            res2 = run_case(model, item["family"], item["then"])
            handle(item["family"], item["then"], res2, "corpus")
            aliasing_step(item["family"], item["then"], res2)
    # 4b. generated, families interleaved
    todo = [(fam, n) for fam, n in counts.items()]
    order = []
    for fam, n in todo:
        order += [fam] * n
    rng.shuffle(order)
    for fam in order:
        spec = g.GENERATORS[fam](rng)
        res = run_case(model, fam, spec)
        handle(fam, spec, res, "generated")
        aliasing_step(fam, spec, res)
        if tier == "quick" and len(violations) >= 5:
            break

    # 5. tie broken without a failing input -> report it
    if tie_broken and not violations:
        for t in tie_broken:
            violations.append(dict(property=PROP, kind="tie", broken=t, no_failing_input_found=True,
                                   searched=dict(evaluations=evaluations)))
    elif tie_broken:
        for v in violations:
            v["tie_broken"] = tie_broken
    if divergences and not violations:
        # model and implementation disagree although no monitor failed: search more, then report
        d0 = divergences[0]
        for _ in range(300 if tier == "quick" else 3000):
            spec = g.GENERATORS[d0["family"]](rng)
            res = run_case(model, d0["family"], spec)
            handle(d0["family"], spec, res, "search")
            if violations:
                break
        if not violations:
            violations.append(dict(property=PROP, kind="correspondence", family=d0["family"], spec=d0["spec"],
                                   broken=f"lean/PulserModel/Codec.lean vs /repo: {d0['what']}: {d0['detail']}",
                                   theorems=thms, no_failing_input_found=True))
    dom = dict()
    if model is not None:
        for (kind, d), n in model.in_domain.items():
            dom[f"{kind}:{'in' if d == '1' else 'outside'}"] = n
        model.close()

    ev = dict(
        property_id=PROP, tier=tier, seed=seed, level="proof",
        coverage=dict(
            obligations=len(thms), discharged=discharged,
            checker_cmd="python harness/tables_c17.py (regenerate) && lake build " + " ".join(TARGETS)
                        + " && #print axioms (harness/common.py audit_axioms)",
            trusted_base=TRUSTED_BASE, theorems=thms, axioms=axioms,
            table_obligations=sorted(TIE_THEOREMS), tables_changed_this_run=bool(changed),
            tie_broken=tie_broken,
            evaluations=evaluations, distinct_nontrivial=nontrivial,
            traces_validated_against_impl=sum(len(v) for v in distinct.values()),
            model_queries=model.asked if model is not None else 0,
            theorem_domain=dom,
            rule="objects built from specs drawn by harness/c17_gen.py (per class family; optional fields absent, "
                 "explicitly at their default, and away from it; valid parameter lattices) + corpus; distinct = "
                 "distinct spec; non-trivial = at least one optional/nested part present (channel with a "
                 "non-default optional field or an EOM, device with channels/DMM/layouts/noise model, noise "
                 "model with a parameter given, config with observables/state, results with entries)",
            samples=samples,
            family_histogram=dict(stats["family"]), class_histogram=dict(stats["cls"]),
            optional_at_default=dict(stats["optional_default"]),
            optional_non_default=dict(stats["optional_nondefault"]),
            size_histogram=dict(stats["sizes"]), noise_type_histogram=dict(stats["noise_types"]),
            build_errors=dict(stats["build_errors"]), monitor_failures_by_clause=dict(stats["fail_clauses"]),
            model_divergences=len(divergences), known_findings_hit=dict(known_hits),
            uncovered_clauses=UNCOVERED, repo_fingerprint=common.repo_fingerprint(),
        ),
        assumptions=TRUSTED_BASE, wall_s=timer.s(), violations=len(violations),
    )
    write_evidence(PROP, ev)
    for kid, n in sorted(known_hits.items()):
        kf = next(f for f in findings if f["id"] == kid)
        print(f"KNOWN-FINDING: property={PROP} {kf['what']} (hit {n}x)")
    if violations:
        for v in violations:
            p = write_replay(PROP, v)
            tail = " no-failing-input-found" if v.get("no_failing_input_found") else ""
            print(f"VIOLATION property={PROP} replay={p}{tail}")
        return 1
    print(f"OK property={PROP} tier={tier} theorems={discharged}/{len(thms)} objects={evaluations} "
          f"distinct={sum(len(v) for v in distinct.values())} model_queries={ev['coverage']['model_queries']} "
          f"wall={timer.s()}s")
    return 0


def common_json(x) -> str:
    return json.dumps(x, sort_keys=True, default=str)


# --------------------------------------------------------------------------------------
# replay
# --------------------------------------------------------------------------------------
def replay(path: str) -> int:
    g.install_check_schema_memo()
    item = json.loads(Path(path).read_text())
    if item.get("kind") == "tie":
        print("replay: this file records a broken translator tie without a failing object:")
        print(json.dumps(item["broken"], indent=1)[:3000])
        try:
            tb.regenerate()
            ok, out = common.lake_build(TARGETS)
        except tb.TableError as e:
            ok, out = False, str(e)
        if ok:
            print("the tables extract and every table obligation checks now")
            return 0
        print(out[-1500:])
        print(f"VIOLATION property={PROP} replay={path} no-failing-input-found")
        return 1
    try:
        model = Model()
    except InfraError:
        model = None
    family = item["family"]
    bad = False
    findings_hit = False
    findings = _findings()
    specs = [item["spec"]] + ([item["then"]] if "then" in item else [])
    prev = None

    def report(f):
        nonlocal bad
        nonlocal findings_hit
        kf = match_known(PROP, f.key, findings)
        if kf is not None:
            findings_hit = True
            print(f"monitor: {f}   [known finding {kf['id']}]")
        else:
            print("monitor:", f)
            bad = True
    for spec in specs:
        res = run_case(model, family, spec)
        print(f"--- {family} spec: {json.dumps(spec)[:600]}")
        if res.build_error:
            print("cannot build:", res.build_error)
            continue
        if res.json:
            print("json:", res.json[:600])
        for f in res.fails:
            report(f)
        for d in res.divs:
            print("model/implementation:", d)
            bad = True
        if prev is not None and prev[1] is not None and prev[2] is not None:
            for f in g.monitor_aliasing(family, prev[0], prev[1], prev[2], "constructing/decoding another object"):
                report(f)
        with warnings.catch_warnings():
            warnings.simplefilter("ignore")
            prev = (spec, res.obj, g.deep_snapshot(family, res.obj)) if (
                res.obj is not None and family not in ("simconfig", "stateop", "configalias")) else None
    if model is not None:
        model.close()
    if bad:
        print(f"VIOLATION property={PROP} replay={path}")
        return 1
    print("replay: nothing but known findings fails on this case" if findings_hit else
          "replay: property holds on this case")
    return 0
