"""Shared machinery of the `Meas` topic (properties C11 and C20).

* `MeasDriver`   : the Lean model behind `pm_meas` (line protocol, exact rationals)
* wire helpers   : rationals, complex numbers, matrices, operator representations
* `Fail`, `Outcome`, `Campaign` : case bookkeeping, known-finding matching, evidence,
                   VIOLATION / KNOWN-FINDING reporting (README §"What check does")
* generators     : rational density matrices / kets, Hermitian operators, bases

A *case* is a JSON-serialisable dict; `kind` selects the runner.  Every number in a case is
a string holding an exact fraction (`common.rat` of the float that is handed to the real
code), so a replay re-runs exactly the same inputs on both sides.
"""
from __future__ import annotations

import collections
import json
import math
import time
import traceback
from dataclasses import dataclass, field
from fractions import Fraction
from pathlib import Path

import numpy as np

import common
from common import InfraError, rat

LEAN_TARGETS = ["PulserModel.Measure", "Proofs.Measure", "Properties.C20", "Properties.C11", "pm_meas"]

LEAN_SOURCES = {"PulserModel/Measure.lean", "Proofs/Measure.lean", "Properties/C11.lean", "Properties/C20.lean",
                "Driver/MeasMain.lean", "Driver/Wire.lean"}

TRUSTED_BASE = [
    "Lean 4 kernel; axioms propext, Classical.choice, Quot.sound only (audited every run)",
    "the statements in lean/Properties/C11.lean, C20.lean say what the property says",
    "hand-written model lean/PulserModel/Measure.lean corresponds to /repo: checked on the generated cases only",
    "harness adapters (harness/props/meas_common.py, C11.py, C20.py), the driver's parser",
    "numpy / qutip leaf functions (tensor, expect, Qobj arithmetic), CPython",
    "ideal arithmetic: theorems are over exact rationals, not float64; no theorem speaks about ODE integration",
]


# --------------------------------------------------------------------------------------
# driver + wire
# --------------------------------------------------------------------------------------
class MeasDriver(common.Driver):
    def __init__(self):
        super().__init__("pm_meas")

    def ask(self, line: str) -> str:
        r = super().ask(line)
        if r.startswith("bad "):
            raise InfraError(f"pm_meas rejected request: {line[:200]} -> {r}")
        return r


def F(x) -> Fraction:
    if isinstance(x, Fraction):
        return x
    if isinstance(x, str):
        return Fraction(x)
    if isinstance(x, (np.floating, float)):
        return Fraction(float(x))
    return Fraction(x)


def cq(z) -> str:
    """complex number -> `re:im` (exact)."""
    if isinstance(z, (tuple, list)):
        return f"{rat(F(z[0]))}:{rat(F(z[1]))}"
    z = complex(z)
    return f"{rat(Fraction(z.real))}:{rat(Fraction(z.imag))}"


def uncq(s: str) -> complex:
    a, b = s.split(":")
    return complex(float(Fraction(a)), float(Fraction(b)))


def uncq_exact(s: str) -> tuple[Fraction, Fraction]:
    a, b = s.split(":")
    return Fraction(a), Fraction(b)


def wmat(m: np.ndarray) -> str:
    """matrix / vector -> flat row-major list of complex numbers."""
    return "[" + ",".join(cq(z) for z in np.asarray(m, dtype=complex).flatten()) + "]"


def unmat(s: str) -> np.ndarray:
    rows = s.strip()[1:-1].split(";")
    return np.array([[uncq(e) for e in row.split(",")] for row in rows], dtype=complex)


def unlist(s: str) -> list[Fraction]:
    inner = s.strip()[1:-1]
    return [Fraction(x) for x in inner.split(",")] if inner else []


def wfracs(xs) -> str:
    return "[" + ",".join(rat(F(x)) for x in xs) + "]"


def wfullop(operations, eigenstates) -> str:
    """FullOp -> wire form (eigenstates as indices)."""
    if not operations:
        return "-"
    terms = []
    for coeff, tensor_op in operations:
        groups = []
        for qudit_op, inds in tensor_op:
            es = "+".join(
                f"{eigenstates.index(k[0])}.{eigenstates.index(k[1])}.{cq(v)}" for k, v in qudit_op.items()
            )
            groups.append(es + "#" + ".".join(str(i) for i in inds))
        terms.append(cq(coeff) + "@" + "&".join(groups))
    return "|".join(terms)


def bits_str(i: int, n: int) -> str:
    return np.binary_repr(i, width=n) if n else "e"


# --------------------------------------------------------------------------------------
# outcome bookkeeping
# --------------------------------------------------------------------------------------
@dataclass
class Fail:
    clause: str
    msg: str
    key: dict

    def sig(self) -> str:
        return json.dumps(self.key, sort_keys=True)


@dataclass
class Outcome:
    fails: list = field(default_factory=list)         # monitor failures (property false on real code)
    divergences: list = field(default_factory=list)   # model != implementation
    warnings: list = field(default_factory=list)      # statistical misses, float-ambiguous, ...
    evaluations: int = 0                              # comparisons made
    nontrivial: bool = False
    branch: str = ""
    detail: dict = field(default_factory=dict)        # shown by replay

    def fail(self, clause, msg, **key):
        self.fails.append(Fail(clause, msg, dict(clause=clause, **key)))

    def diverge(self, what):
        self.divergences.append(what)


def close(a, b, tol=1e-9) -> bool:
    a = np.asarray(a, dtype=complex)
    b = np.asarray(b, dtype=complex)
    if a.shape != b.shape:
        return False
    return bool(np.all(np.abs(a - b) <= tol * (1.0 + np.maximum(np.abs(a), np.abs(b)))))


class Campaign:
    """Runs cases, applies the outcome rules of the README, writes the evidence."""

    def __init__(self, prop: str, tier: str, seed: int, runner, shrinker=None):
        self.prop, self.tier, self.seed = prop, tier, seed
        self.runner = runner            # (driver, case) -> Outcome
        self.shrinker = shrinker        # case -> iterable of smaller cases
        self.timer = common.Timer()
        self.findings = common.load_known_findings()
        self.drv = None
        self.evaluations = 0
        self.cases = 0
        self.distinct = set()
        self.nontrivial = 0
        self.kinds = collections.Counter()
        self.branches = collections.Counter()
        self.samples = {}
        self.known_hits = collections.Counter()
        self.known_examples = {}
        self.violations = []
        self.seen_sigs = set()
        self.unexplained_div = []
        self.warnings = []
        self.test_results = collections.Counter()

    # -- Lean side ---------------------------------------------------------------------
    def lean_obligations(self):
        ok, out = common.lake_build(LEAN_TARGETS)
        if not ok:
            raise InfraError("lake build failed:\n" + out[-3000:])
        thms = common.property_theorems(self.prop)
        # only the sources this property depends on (another contributor's work in progress must not
        # turn this check into an infrastructure error; `sorryAx` would show up in the axiom audit anyway)
        try:
            bad = common.lean_forbidden_tokens([f"Properties.{self.prop}", "Driver.MeasMain"])
        except TypeError:       # older common.py: scans every file
            bad = [h for h in common.lean_forbidden_tokens() if h.split(":")[0] in LEAN_SOURCES]
        if bad:
            raise InfraError("forbidden tokens in Lean sources: " + "; ".join(bad[:5]))
        axioms = common.audit_axioms(f"Properties.{self.prop}", thms) if thms else {}
        offending = {t: axioms.get(t) for t in thms
                     if axioms.get(t) is None or not set(axioms[t]) <= common.ALLOWED_AXIOMS}
        if offending:
            raise InfraError(f"axiom audit failed: {offending}")
        self.thms, self.axioms = thms, axioms
        self.drv = MeasDriver()

    # -- running -----------------------------------------------------------------------
    def run_case(self, case: dict, origin: str) -> Outcome:
        try:
            out = self.runner(self.drv, case)
        except InfraError:
            raise
        except Exception as e:  # noqa: BLE001
            # an exception raised *inside the code under test* on a valid input is a verdict (the
            # property fails there); an exception of the adapter itself is infrastructure
            frames = traceback.extract_tb(e.__traceback__)
            in_repo = [f for f in frames if str(Path(f.filename).resolve()).startswith(str(common.REPO.resolve()))]
            if not in_repo:
                raise InfraError(f"runner crashed on case {json.dumps(case)[:400]}:\n{traceback.format_exc()}") from e
            out = Outcome(branch="raised", evaluations=1)
            where = f"{Path(in_repo[-1].filename).name}:{in_repo[-1].name}"
            out.fail("raises", f"{type(e).__name__} in {where}: {str(e)[:200]}", exc=type(e).__name__, where=where)
        self.cases += 1
        self.evaluations += out.evaluations
        self.kinds[case["kind"]] += 1
        if out.branch:
            self.branches[f"{case['kind']}:{out.branch}"] += 1
        c = json.dumps(case, sort_keys=True)
        if c not in self.distinct:
            self.distinct.add(c)
            if out.nontrivial:
                self.nontrivial += 1
        if case["kind"] not in self.samples and out.nontrivial:
            self.samples[case["kind"]] = dict(origin=origin, case=_abbrev(case))
        for w in out.warnings:
            if len(self.warnings) < 40:
                self.warnings.append(f"{case['kind']}: {w}")
        explained = False
        for f in out.fails:
            explained = True
            kf = common.match_known(self.prop, f.key, self.findings)
            if kf is not None:
                self.known_hits[kf["id"]] += 1
                self.known_examples.setdefault(kf["id"], dict(case=_abbrev(case), msg=f.msg[:300]))
                continue
            if f.sig() in self.seen_sigs:
                continue
            self.seen_sigs.add(f.sig())
            small = self.shrink(case, f)
            self.violations.append(dict(property=self.prop, kind="monitor", clause=f.clause, message=f.msg,
                                        key=f.key, case=small))
        if out.divergences and not explained:
            self.unexplained_div.append(dict(case=case, why=out.divergences[:3]))
        return out

    def shrink(self, case, f: Fail):
        if self.shrinker is None:
            return case
        cur = case
        for _ in range(40):
            for cand in self.shrinker(cur):
                try:
                    o = self.runner(self.drv, cand)
                except Exception:  # noqa: BLE001
                    continue
                if any(g.sig() == f.sig() for g in o.fails):
                    cur = cand
                    break
            else:
                break
        return cur

    def budget_left(self, limit_s: float) -> bool:
        return self.timer.s() < limit_s

    # -- verdict -----------------------------------------------------------------------
    def finish(self, explanation: str, uncovered: list[str], rule: str, extra_cov: dict | None = None,
               search=None) -> int:
        prop = self.prop
        # tie broken without a failing input: search more, then report
        if self.unexplained_div and not self.violations and search is not None:
            search(self)
        if self.unexplained_div and not self.violations:
            d0 = self.unexplained_div[0]
            self.violations.append(dict(property=prop, kind="correspondence", no_failing_input_found=True,
                                        broken="model/implementation correspondence (lean/PulserModel/Measure.lean "
                                               "vs /repo): " + "; ".join(map(str, d0["why"])),
                                        theorems=self.thms, case=d0["case"]))
        if self.drv is not None:
            self.drv.close()
        cov = dict(
            explanation=explanation,
            uncovered_clauses=uncovered,
            obligations=len(self.thms), discharged=len(self.thms),
            checker_cmd="cd lean && lake build " + " ".join(LEAN_TARGETS)
                        + "  &&  #print axioms of every theorem of Properties/" + prop + ".lean (common.audit_axioms)",
            trusted_base=TRUSTED_BASE,
            theorems=self.thms, axioms=self.axioms,
            partial_theorems=[t for t in self.thms if t.endswith("_partial")],
            evaluations=self.evaluations, cases=self.cases,
            distinct_nontrivial=self.nontrivial, distinct_cases=len(self.distinct),
            rule=rule,
            samples=list(self.samples.values()),
            case_kind_histogram=dict(self.kinds), branch_histogram=dict(self.branches),
            known_findings_hit=dict(self.known_hits), known_finding_examples=self.known_examples,
            warnings=self.warnings, unexplained_divergences=len(self.unexplained_div),
            smoke_tests=dict(self.test_results),
            repo_fingerprint=common.repo_fingerprint(),
        )
        if extra_cov:
            cov.update(extra_cov)
        ev = dict(property_id=prop, tier=self.tier, seed=self.seed, level="other", coverage=cov,
                  assumptions=TRUSTED_BASE, wall_s=self.timer.s(), violations=len(self.violations))
        common.write_evidence(prop, ev)
        for kid, n in sorted(self.known_hits.items()):
            kf = next(f for f in self.findings if f["id"] == kid and f.get("property") == prop)
            print(f"KNOWN-FINDING: property={prop} {kf['what']} (hit {n}x)")
        if self.violations:
            for v in self.violations:
                p = common.write_replay(prop, v)
                tail = " no-failing-input-found" if v.get("no_failing_input_found") else ""
                print(f"VIOLATION property={prop} replay={p}{tail}")
                print(f"  clause={v.get('clause', v.get('broken', ''))[:200]} :: {str(v.get('message', ''))[:300]}")
            return 1
        print(f"OK property={prop} tier={self.tier} theorems={len(self.thms)} cases={self.cases} "
              f"comparisons={self.evaluations} nontrivial={self.nontrivial} wall={self.timer.s()}s")
        return 0


def _abbrev(case: dict, limit: int = 700) -> dict:
    out = {}
    for k, v in case.items():
        s = json.dumps(v)
        out[k] = v if len(s) <= limit else s[:limit] + "…"
    return out


def replay_file(prop: str, path: str, runner) -> int:
    item = json.loads(Path(path).read_text())
    cases = item if isinstance(item, list) else [item.get("case", item)]     # a corpus file holds a list
    drv = MeasDriver()
    worst = 0
    try:
        for i, case in enumerate(cases):
            if len(cases) > 1:
                print(f"--- case {i} of {path}")
            worst = max(worst, _replay_case(prop, case, runner, drv, path))
    finally:
        drv.close()
    return worst


def _replay_case(prop: str, case: dict, runner, drv, path: str) -> int:
    out = runner(drv, case)
    print(f"case kind={case.get('kind')} branch={out.branch}")
    for k, v in out.detail.items():
        print(f"  {k}: {str(v)[:600]}")
    for d in out.divergences:
        print(f"  DIVERGED (model vs /repo): {d}")
    for w in out.warnings:
        print(f"  warning: {w}")
    findings = common.load_known_findings()
    bad = False
    for f in out.fails:
        kf = common.match_known(prop, f.key, findings)
        tag = f"known finding {kf['id']}" if kf else "FAILS"
        print(f"  monitor {tag}: clause={f.clause} key={f.key} :: {f.msg[:400]}")
        bad = bad or kf is None
    if out.divergences and not out.fails:
        bad = True
    if bad:
        print(f"VIOLATION property={prop} replay={path}")
        return 1
    print(f"no unexplained failure on replay (property={prop})")
    return 0


def load_corpus(prop: str) -> list[dict]:
    d = common.CORPUS / prop
    out = []
    if d.exists():
        for f in sorted(d.glob("*.json")):
            item = json.loads(f.read_text())
            if isinstance(item, list):
                out.extend(item)
            else:
                out.append(item.get("case", item))
    return out


# --------------------------------------------------------------------------------------
# generators
# --------------------------------------------------------------------------------------
BASES = {
    # eigenstates as the emulator orders them (STATES_RANK = u d r g h x)
    "ground-rydberg": ("r", "g"),
    "digital": ("g", "h"),
    "XY": ("u", "d"),
    "all": ("r", "g", "h"),
    "ground-rydberg_with_error": ("r", "g", "x"),
    "digital_with_error": ("g", "h", "x"),
    "XY_with_error": ("u", "d", "x"),
    "all_with_error": ("r", "g", "h", "x"),
}
ONE_STATE = {"ground-rydberg": "r", "digital": "h", "XY": "d"}
# documented "one state" of a two-level eigenbasis (never read from State.infer_one_state)
INFERRED_ONE = {frozenset("rg"): "r", frozenset("gh"): "h", frozenset("ud"): "d", frozenset("01"): "1"}


def inferred_one_state(eig) -> str:
    """The state that measures to 1 when none is given: r (ground-rydberg), h (digital), d (XY), "1"."""
    return INFERRED_ONE[frozenset(eig)]


def eigenbasis_of_channels(channels) -> tuple:
    """Eigenbasis of an emulation from the channels a sequence uses (documented energy ranking
    u d r g h x), independent of SequenceSamples.eigenbasis / Hamiltonian.eigenbasis."""
    chans = set(channels)
    if "mw" in chans:
        return BASES["XY"]
    if "ram" in chans and "ryd" in chans:
        return BASES["all"]
    if "ram" in chans:
        return BASES["digital"]
    return BASES["ground-rydberg"]


def small_frac(rng, den_choices=(1, 2, 4, 8), lo=-8, hi=8) -> Fraction:
    return Fraction(rng.randint(lo, hi), rng.choice(den_choices))


def rand_complex_dyadic(rng, real_only=False) -> complex:
    re = float(small_frac(rng))
    im = 0.0 if real_only or rng.random() < 0.4 else float(small_frac(rng))
    return complex(re, im)


def rand_ket(rng, dim: int, style: str | None = None) -> np.ndarray:
    """A normalised ket (float64); the exact value of each float is what both sides receive."""
    style = style or rng.choice(["dense", "dense", "sparse", "basis", "real"])
    if style == "basis":
        v = np.zeros(dim, dtype=complex)
        v[rng.randrange(dim)] = 1.0
        return v
    v = np.array([rand_complex_dyadic(rng, real_only=(style == "real")) for _ in range(dim)], dtype=complex)
    if style == "sparse":
        for i in range(dim):
            if rng.random() < 0.6:
                v[i] = 0
    if not np.any(v):
        v[rng.randrange(dim)] = 1.0
    return v / np.linalg.norm(v)


def rand_dm_exact(rng, dim: int, rank: int | None = None):
    """A density matrix with *rational* entries, exactly unit trace, Hermitian, PSD:
    sum of rational-weighted projectors on rational vectors, divided by its rational trace.
    Returns (list of lists of (Fraction re, Fraction im))."""
    rank = rank or rng.randint(1, min(dim, 3))
    acc = [[(Fraction(0), Fraction(0)) for _ in range(dim)] for _ in range(dim)]
    for _ in range(rank):
        w = Fraction(rng.randint(1, 4))
        v = [(small_frac(rng, (1, 2), -3, 3), Fraction(0) if rng.random() < 0.5 else small_frac(rng, (1, 2), -3, 3))
             for _ in range(dim)]
        if all(a == 0 and b == 0 for a, b in v):
            v[rng.randrange(dim)] = (Fraction(1), Fraction(0))
        for i in range(dim):
            for j in range(dim):
                # v_i * conj(v_j)
                re = v[i][0] * v[j][0] + v[i][1] * v[j][1]
                im = v[i][1] * v[j][0] - v[i][0] * v[j][1]
                acc[i][j] = (acc[i][j][0] + w * re, acc[i][j][1] + w * im)
    tr = sum(acc[i][i][0] for i in range(dim))
    return [[(a / tr, b / tr) for a, b in row] for row in acc]


def dm_to_np(dm) -> np.ndarray:
    return np.array([[complex(float(a), float(b)) for a, b in row] for row in dm], dtype=complex)


def rand_hermitian(rng, dim: int, style: str | None = None) -> np.ndarray:
    style = style or rng.choice(["dense", "diag", "real", "sparse"])
    h = np.zeros((dim, dim), dtype=complex)
    for i in range(dim):
        h[i, i] = float(small_frac(rng))
        if style == "diag":
            continue
        for j in range(i + 1, dim):
            if style == "sparse" and rng.random() < 0.7:
                continue
            z = rand_complex_dyadic(rng, real_only=(style == "real"))
            h[i, j] = z
            h[j, i] = z.conjugate()
    return h


def six_sigma_miss(counts: dict, probs: dict, shots: int) -> list[str]:
    """Bitstrings whose observed count is outside a 6-sigma band of the exact probability."""
    out = []
    for k in set(counts) | set(probs):
        p = float(probs.get(k, 0.0))
        c = counts.get(k, 0)
        sd = math.sqrt(max(shots * p * (1 - p), 0.0))
        if abs(c - shots * p) > 6 * sd + 1.0:
            out.append(f"{k}: count {c} vs expected {shots * p:.1f} ± {sd:.1f}")
    return out


def binom_tail_miss(counts: dict, probs: dict, shots: int, alpha: float = 1e-12) -> list[str]:
    """Bitstrings whose observed count has an EXACT binomial tail probability below `alpha` under the
    expected distribution (independent shots).  Unlike the 6-sigma band (a normal approximation, kept
    as a warning) this is a hard criterion: on code that samples the expected distribution it fires
    with probability < `alpha` per outcome, so it may fail the check (e.g. bit flips that are
    correlated within a shot keep every per-bit rate and still shift the joint counts by dozens of
    standard deviations)."""
    from scipy.stats import binom

    out = []
    for k in sorted(set(counts) | set(probs)):
        pk = min(max(float(probs.get(k, 0.0)), 0.0), 1.0)
        c = int(counts.get(k, 0))
        if pk <= 0.0 or pk >= 1.0:
            continue                      # probability-zero outcomes are reported as impossible elsewhere
        lo = float(binom.cdf(c, shots, pk))        # P(X <= c)
        hi = float(binom.sf(c - 1, shots, pk))     # P(X >= c)
        if min(lo, hi) < alpha:
            out.append(f"{k}: count {c} of {shots} at probability {pk:.6g} (tail {min(lo, hi):.2e})")
    return out


def deadline(start: float, seconds: float) -> bool:
    return time.time() - start > seconds
