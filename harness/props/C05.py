"""C05 — the emulated Hamiltonian equals the documented formula (PARTIAL, level "other").

Three independent constructions of H(t) are compared at every integer time of
short generated programs:

* real   : QutipEmulator.from_sequence(seq, sampling_rate=1.0).get_hamiltonian(t).full()
* model  : lean/PulserModel/Hamiltonian.lean through the `pm_ham` executable (pairs of
           Float).  The model assembles H the way `_construct_hamiltonian` does
           (Kronecker products, half-Hamiltonian + dagger: `code`) and entry-wise from the
           documented formula (`doc`); Lean proves the two equal over an ideal scalar ring.
* monitor: the documented formula recomputed in numpy (entry-wise over configurations).

The per-atom values  Omega_i(t), delta_i(t), phi_i(t)  come from an INDEPENDENT rendering of
`seq._schedule` (pulse slots, targets, DMM weights from the detuning-map traps, the XY SLM
window) — neither `sample()` nor `to_nested_dict` are used for it.
"""
from __future__ import annotations

import collections
import dataclasses
import itertools
import json
import math
import random
import struct
import warnings
from pathlib import Path

import numpy as np

import common
from common import InfraError, Timer, match_known, write_evidence, write_replay

PROP = "C05"
LEAN_TARGETS = ["PulserModel.Hamiltonian", "Proofs.Hamiltonian", "Properties.C05", "pm_ham"]
N_CASES = {"quick": 300, "thorough": 3000}      # (thorough about 10 min)

# documented conventions (docs/source/conventions.md); also held by the Lean model and
# compared with the live code at the start of every run (`consts`)
STATES_RANK = ["u", "d", "r", "g", "h", "x"]
EIGENSTATES = {"ground-rydberg": ["r", "g"], "digital": ["g", "h"], "XY": ["u", "d"]}
# basis -> (a, b): coefficient Omega/2 e^{-i phi} on |a><b|, -delta on |b><b|
AB = {"ground-rydberg": ("g", "r"), "digital": ("h", "g"), "XY": ("d", "u")}
BASES = ["ground-rydberg", "digital", "XY"]

TRUSTED_BASE = [
    "Lean 4.33 kernel; axioms allowed: propext, Classical.choice, Quot.sound (audited per theorem)",
    "statements in lean/Properties/C05.lean say what the index/sign/factor clauses of the property say",
    "lean/PulserModel/Hamiltonian.lean corresponds to /repo (checked numerically on generated programs, not proved)",
    "reference renderer in harness/props/C05.py (reads seq._schedule, Pulse waveform .samples, DetuningMap traps)",
    "numpy / qutip leaf functions (Qobj.full, waveform samples); scheduler slots (C02/C03/C07), EOM detuning_off (C15), calibrated-layout trap coordinates (C19) are read from the real objects; C6 per level is the harness own copy of the published table; atom order, coordinates, C3, field, SLM targets, DMM weights, channel basis/addressing, EOM open/closed come from the program text",
    "Float evaluation: the Lean theorems are over an ideal commutative ring; float64 equality is validated to rel. 1e-9 only",
]

UNCOVERED = [
    "equality of the float64 QuTiP matrix with the formula (float evaluation of exp, 1/R^6, 1/R^3, spline "
    "evaluation of the coefficients): numerical validation at integer times of generated programs only",
    "behaviour between sample times (QobjEvo interpolation) and for sampling_rate < 1",
    "noise (SPAM, doppler, amplitude, leakage) — the property is about the noiseless Hamiltonian",
    "that the per-atom values handed to the model are what the sequence programs: tied by the independent "
    "reference renderer (tested), the scheduler itself is C02/C03/C06/C07",
]


# ----------------------------------------------------------------------------------------------
# case -> real objects
# ----------------------------------------------------------------------------------------------
def _wf(spec, dur):
    from pulser.waveforms import BlackmanWaveform, ConstantWaveform, CustomWaveform, RampWaveform

    k = spec[0]
    if k == "const":
        return ConstantWaveform(dur, spec[1])
    if k == "ramp":
        return RampWaveform(dur, spec[1], spec[2])
    if k == "blackman":
        return BlackmanWaveform(dur, spec[1])
    if k == "custom":
        vals = list(spec[1])
        vals = (vals * (dur // len(vals) + 1))[:dur]
        return CustomWaveform(vals)
    raise InfraError(f"unknown waveform spec {spec}")


def make_device(dspec):
    import pulser.devices as devs
    from pulser.channels import DMM, Microwave, Raman, Rydberg
    from pulser.devices import VirtualDevice

    base = dspec["base"]
    if base == "Virtual":
        chans = []
        ids = []
        for cid in dspec["channels"]:
            cls = {"rydberg": Rydberg, "raman": Raman, "mw": Microwave}[cid.split("_")[0]]
            ctor = cls.Global if cid.endswith("global") else cls.Local
            if cid == "rydberg_global" and dspec.get("eom"):
                from pulser.channels.eom import RydbergBeam, RydbergEOM

                bw, ebw = dspec["eom"]
                chans.append(ctor(None, None, max_duration=None, mod_bandwidth=float(bw), eom_config=RydbergEOM(
                    limiting_beam=RydbergBeam.RED, max_limiting_amp=30 * 2 * math.pi,
                    intermediate_detuning=450 * 2 * math.pi, mod_bandwidth=float(ebw),
                    controlled_beams=(RydbergBeam.BLUE,))))
            else:
                chans.append(ctor(None, None, max_duration=None))
            ids.append(cid)
        return VirtualDevice(
            name="C05Virtual", dimensions=3, rydberg_level=dspec["rydberg_level"], max_atom_num=None,
            max_radial_distance=None, min_atom_distance=0.0,
            interaction_coeff_xy=float(dspec.get("c3") or 3700.0), supports_slm_mask=True,
            reusable_channels=bool(dspec.get("reusable", False)), channel_objects=tuple(chans),
            channel_ids=tuple(ids), dmm_objects=(DMM(), DMM()),
        )
    dev = getattr(devs, base)
    repl = {}
    if dspec.get("rydberg_level") is not None:
        repl["rydberg_level"] = dspec["rydberg_level"]
    if dspec.get("c3") is not None and base == "MockDevice":
        repl["interaction_coeff_xy"] = float(dspec["c3"])
    return dataclasses.replace(dev, **repl) if repl else dev


def make_register(rspec, device):
    from pulser import Register, Register3D

    atoms = rspec["atoms"]
    if rspec.get("layout"):
        layout = device.pre_calibrated_layouts[0]
        return layout.define_register(*[a[2] for a in atoms], qubit_ids=[a[0] for a in atoms])
    qd = {a[0]: tuple(a[1]) for a in atoms}
    return Register3D(qd) if rspec["dim"] == 3 else Register(qd)


def build(case):
    """Apply the program of `case` to a fresh real Sequence."""
    from pulser import Pulse, Sequence

    device = make_device(case["device"])
    reg = make_register(case["reg"], device)
    seq = Sequence(reg, device)
    for op in case["ops"]:
        k = op["k"]
        if k == "field":
            seq.set_magnetic_field(*op["b"])
        elif k == "channel":
            seq.declare_channel(op["name"], op["id"], initial_target=op.get("init"))
        elif k == "detmap":
            dm = reg.define_detuning_map({q: w for q, w in op["weights"]})
            seq.config_detuning_map(dm, op["dmm_id"])
        elif k == "slm":
            seq.config_slm_mask(op["q"], dmm_id=op.get("dmm_id", "dmm_0"))
        elif k == "add":
            pulse = Pulse(_wf(op["amp"], op["dur"]), _wf(op["det"], op["dur"]), op["phase"],
                          post_phase_shift=op.get("post", 0.0))
            seq.add(pulse, op["ch"], protocol=op.get("protocol", "min-delay"))
        elif k == "dmm":
            seq.add_dmm_detuning(_wf(op["det"], op["dur"]), op["ch"], protocol=op.get("protocol", "no-delay"))
        elif k == "target":
            seq.target(op["q"], op["ch"])
        elif k == "delay":
            seq.delay(op["dur"], op["ch"])
        elif k == "align":
            seq.align(*op["chs"])
        elif k == "phase_shift":
            seq.phase_shift(op["phi"], *op["q"], basis=op["basis"])
        elif k == "eom_on":
            seq.enable_eom_mode(op["ch"], op["amp_on"], op["det_on"], optimal_detuning_off=op["det_off"])
        elif k == "eom_pulse":
            seq.add_eom_pulse(op["ch"], op["dur"], op["phase"], protocol=op.get("protocol", "min-delay"))
        elif k == "eom_off":
            seq.disable_eom_mode(op["ch"])
        else:
            raise InfraError(f"unknown op {k}")
    return seq, reg, device


# ----------------------------------------------------------------------------------------------
# independent reference renderer
# ----------------------------------------------------------------------------------------------
@dataclasses.dataclass
class Contribution:
    ch: str
    basis: str
    cls: str            # 'G' global drive channel, 'L' local channel, 'D' DMM
    ti: int
    tf: int
    amp: np.ndarray
    det: np.ndarray
    phase: float
    weights: list       # per atom (register order): 1/0 for drive channels, detuning-map weight for DMM


@dataclasses.dataclass
class Rendered:
    ids: list
    coords: list        # 3-vectors (z = 0 in 2D), register order
    T: int              # sequence duration
    xy: bool
    field: list | None
    contribs: list
    mask: list          # atom indices under the SLM mask (XY only; in Ising the mask is a DMM pulse)
    mask_end: int
    used_bases: list
    eigenbasis: list
    c6: float | None
    c3: float | None
    level: int

    @property
    def n(self):
        return len(self.ids)

    @property
    def d(self):
        return len(self.eigenbasis)


# C6/hbar per Rydberg level (rad/us * um^6): the published constant table, copied here so that the expected
# interaction does not depend on the tree's C6_coeffs.json / BaseDevice.interaction_coeff
C6_TABLE = {
    50: 96120.72, 51: 122241.6, 52: 154693.02, 53: 194740.36, 54: 243973.91, 55: 304495.01, 56: 378305.98,
    57: 468027.05, 58: 576714.85, 59: 707911.38, 60: 865723.02, 61: 1054903.11, 62: 1281042.11, 63: 1550531.15,
    64: 1870621.31, 65: 2249728.57, 66: 2697498.69, 67: 3224987.51, 68: 3844734.37, 69: 4571053.32,
    70: 5420158.53, 71: 6410399.4, 72: 7562637.31, 73: 8900342.14, 74: 10449989.62, 75: 12241414.53,
    76: 14308028.03, 77: 16687329.94, 78: 19421333.62, 79: 22557029.94, 80: 26146720.74, 81: 30248886.65,
    82: 34928448.69, 83: 40257623.67, 84: 46316557.88, 85: 53194043.52, 86: 60988354.64, 87: 69808179.15,
    88: 79773468.88, 89: 91016513.07, 90: 103677784.57, 91: 117933293.96, 92: 133943541.9, 93: 151907135.94,
    94: 172036137.34, 95: 194562889.89, 96: 219741590.56, 97: 247850178.91, 98: 279192193.77, 99: 314098829.39,
    100: 352931119.11,
}
# documented constants of the stock devices (constructor arguments in pulser/devices/_devices.py, _mock_device.py)
STOCK_LEVEL = {"MockDevice": 70, "DigitalAnalogDevice": 70, "AnalogDevice": 60}
STOCK_C3 = 3700.0
DEFAULT_FIELD = [0.0, 0.0, 30.0]          # Sequence.set_magnetic_field defaults / XY mode default
CH_BASIS = {"rydberg": "ground-rydberg", "raman": "digital", "mw": "XY"}


def render(seq, case=None, ops=None) -> Rendered:
    """Per-channel pulse contributions read from the scheduler's slots.

    With `case` (and the list `ops` of the operations the API accepted) everything the USER programmed is taken
    from the program text, not from the objects under test: atom order and coordinates, Rydberg level -> C6
    (own table), C3, magnetic field, SLM targets, detuning-map weights, basis / addressing of each channel (from
    its device id), EOM left open or closed.  What stays read from the real objects: the scheduler's slots
    (times, targets, pulse phase: C02/C03/C07), waveform samples (C16), the detuning_off chosen by EOM mode
    (C15), trap coordinates of a calibrated layout (C19)."""
    from pulser.pulse import Pulse

    reg = seq.register
    if case is not None and not case["reg"].get("layout"):
        ids = [a[0] for a in case["reg"]["atoms"]]
        coords = [[float(x) for x in a[1]] + [0.0] * (3 - len(a[1])) for a in case["reg"]["atoms"]]
    else:
        ids = [a[0] for a in case["reg"]["atoms"]] if case is not None else list(reg.qubit_ids)
        coords = []
        for q in ids:       # calibrated layout: trap id -> coordinates is C19's
            c = [float(x) for x in np.asarray(reg.qubits[q].as_array() if hasattr(reg.qubits[q], "as_array")
                                              else reg.qubits[q], dtype=float)]
            coords.append(c + [0.0] * (3 - len(c)))
    ops = list(ops if ops is not None else (case["ops"] if case is not None else []))
    ch_id = {o["name"]: o["id"] for o in ops if o["k"] == "channel"}
    # candidate per-atom weight vectors of the DMM channels, from the program text
    dmm_candidates = []
    for o in ops:
        if o["k"] == "detmap":
            wd = {}
            for q, w in o["weights"]:
                wd[q] = wd.get(q, 0.0) + float(w)
            dmm_candidates.append([wd.get(q, 0.0) for q in ids])
        elif o["k"] == "slm":       # Ising: "a DetuningMap where the detuning of each masked qubit is 1.0"
            dmm_candidates.append([1.0 if q in o["q"] else 0.0 for q in ids])
    slm_targets = next((list(o["q"]) for o in ops if o["k"] == "slm"), None)
    eom_open = {}
    for o in ops:
        if o["k"] == "eom_on":
            eom_open[o["ch"]] = True
        elif o["k"] == "eom_off":
            eom_open[o["ch"]] = False
    contribs = []
    T = 0
    xy = False
    first_global = None     # (ti, tf) of the earliest-starting first pulse of a global drive channel
    open_eom = []
    for name, sch in seq._schedule.items():
        if case is not None:
            is_dmm = name not in ch_id
            if is_dmm:
                basis, cls = "ground-rydberg", "D"
            else:
                kind, addr = ch_id[name].split("_")[0], ch_id[name].split("_")[1]
                basis, cls = CH_BASIS[kind], ("G" if addr == "global" else "L")
        else:
            from pulser.channels.dmm import DMM

            ch = sch.channel_obj
            is_dmm = isinstance(ch, DMM)
            basis, cls = ch.basis, ("D" if is_dmm else ("G" if ch.addressing == "Global" else "L"))
        if basis == "XY":
            xy = True
        if is_dmm:
            dm = sch.detuning_map
            traps = np.asarray(dm.trap_coordinates, dtype=float)
            tw = list(dm.weights)
            weights = []
            for c in coords:
                w = 0.0
                for tr, wt in zip(traps, tw):
                    trc = list(tr) + [0.0] * (3 - len(tr))
                    if all(abs(a - b) <= 1e-6 for a, b in zip(trc, c)):
                        w += float(wt)
                weights.append(w)
            if case is not None:
                # the map object only ROUTES to one of the programmed weight vectors; the values are the program's
                match = [v for v in dmm_candidates if all(abs(a - b) <= 1e-12 for a, b in zip(v, weights))]
                if not match:
                    raise RenderMismatch(f"DMM channel {name!r} carries weights {weights} but the program "
                                         f"configured {dmm_candidates}")
                weights = list(match[0])
        if case is not None:
            is_open = bool(eom_open.get(name, False))
        else:
            blocks0 = list(getattr(sch, "eom_blocks", []) or [])
            is_open = bool(blocks0 and blocks0[-1].tf is None)
        blocks = list(getattr(sch, "eom_blocks", []) or [])
        if is_open and blocks and sch.slots:
            # the channel is left in EOM mode: while it idles (after its last instruction — from t = 0 when EOM
            # mode was enabled on the still empty channel — until the end of the sequence) its detuning stays at
            # detuning_off.  A CLOSED block leaves nothing behind: detuning 0.
            last = sch.slots[-1]
            open_eom.append((name, basis, cls, max(int(last.tf), 0), float(blocks[-1].detuning_off),
                             [1.0 if (cls == "G" or q in last.targets) else 0.0 for q in ids]))
        seen_first = False
        for slot in sch.slots:
            if slot.ti >= 0:
                T = max(T, slot.tf)
            if not isinstance(slot.type, Pulse):
                continue
            p = slot.type
            amp = np.asarray(p.amplitude.samples.as_array(), dtype=float)
            det = np.asarray(p.detuning.samples.as_array(), dtype=float)
            if not is_dmm:
                weights = [1.0 if (cls == "G" or q in slot.targets) else 0.0 for q in ids]
            contribs.append(Contribution(name, basis, cls, slot.ti, slot.tf, amp, det, float(p.phase),
                                         list(weights)))
            if cls == "G" and not seen_first:
                # Pulse.ConstantPulse(dur, 0, delta, phi) is a "detuned delay" (what delays / EOM buffers are made
                # of), not a pulse; any other zero-amplitude Pulse object the user adds is a pulse
                detuned_delay = bool(type(p.amplitude).__name__ == "ConstantWaveform" and amp[0] == 0.0
                                     and type(p.detuning).__name__ == "ConstantWaveform")
                if not detuned_delay:
                    seen_first = True
                    if first_global is None or slot.ti < first_global[0]:
                        first_global = (slot.ti, slot.tf)
    for name, basis, cls, t_end, det_off, w in open_eom:
        if t_end <= T:
            m = T + 1 - t_end
            contribs.append(Contribution(name, basis, cls, t_end, T + 1, np.zeros(m), np.full(m, det_off), 0.0, w))
    if case is None:
        slm_targets = list(seq._slm_mask_targets) or None
    mask, mask_end = [], 0
    if xy and slm_targets and first_global is not None:
        mask = sorted(ids.index(q) for q in slm_targets)
        mask_end = first_global[1]
    used = []
    for b in BASES:
        if any(c.basis == b and (np.any(c.amp != 0) or np.any(c.det != 0)) for c in contribs):
            used.append(b)
    if not used:
        states = set(EIGENSTATES["XY" if xy else "ground-rydberg"])
    else:
        states = set().union(*(EIGENSTATES[b] for b in used))
    eigenbasis = [s for s in STATES_RANK if s in states]
    if case is not None:
        d = case["device"]
        level = int(d["rydberg_level"]) if d.get("rydberg_level") is not None else STOCK_LEVEL[d["base"]]
        c3 = float(d.get("c3") or STOCK_C3)
        field = next(([float(x) for x in o["b"]] for o in ops if o["k"] == "field"), list(DEFAULT_FIELD))
    else:
        level = int(seq.device.rydberg_level)
        c3 = float(seq.device.interaction_coeff_xy) if xy else None
        field = [float(x) for x in seq.magnetic_field]
    return Rendered(ids, coords, T, xy, (field if xy else None), contribs, mask, mask_end, used, eigenbasis,
                    C6_TABLE[level], (c3 if xy else None), level)


class RenderMismatch(Exception):
    """The objects under test do not carry what the program configured."""


def atom_values(info: Rendered, t: int):
    """{(atom, basis): (D, delta)} with D = sum_c Omega_c/2 e^{-i phi_c} and delta = sum_c w_c delta_c —
    the values programmed for the atom at time t (coherent sum when several channels drive one transition)."""
    out = {}
    for c in info.contribs:
        if not (c.ti <= t < c.tf):
            continue
        k = t - c.ti
        for i, w in enumerate(c.weights):
            if w == 0.0:
                continue
            if info.xy and i in info.mask and t < info.mask_end:
                continue
            D, dl = out.get((i, c.basis), (0j, 0.0))
            if c.cls == "D":
                dl += w * c.det[k]
            else:
                D += 0.5 * c.amp[k] * complex(math.cos(c.phase), -math.sin(c.phase))
                dl += c.det[k]
            out[(i, c.basis)] = (D, dl)
    return out


def couplings(info: Rendered, t: int, slm_off_by_one: bool = False):
    """{(i, j): U_ij} for i < j: C6/R^6 (Ising, if r in the basis) or C3 (1 - 3 cos^2)/R^3 (XY, unmasked pairs)."""
    out = {}
    if info.n < 2:
        return out
    if not info.xy and "r" not in info.eigenbasis:
        return out
    masked_now = info.xy and info.mask and (t < info.mask_end or (slm_off_by_one and t == info.mask_end))
    for i, j in itertools.combinations(range(info.n), 2):
        dv = [a - b for a, b in zip(info.coords[i], info.coords[j])]
        R = math.sqrt(sum(x * x for x in dv))
        if info.xy:
            if masked_now and (i in info.mask or j in info.mask):
                continue
            bn = math.sqrt(sum(x * x for x in info.field))
            cos = sum(a * b for a, b in zip(dv, info.field)) / (R * bn)
            out[(i, j)] = info.c3 * (1 - 3 * cos * cos) / R ** 3
        else:
            out[(i, j)] = info.c6 / R ** 6
    return out


def doc_hamiltonian(info: Rendered, t: int, slm_off_by_one: bool = False) -> np.ndarray:
    """The documented formula, entry-wise over configurations (monitor; no model, no Kronecker product)."""
    n, d, eb = info.n, info.d, info.eigenbasis
    vals = atom_values(info, t)
    U = couplings(info, t, slm_off_by_one)
    confs = list(itertools.product(range(d), repeat=n))     # register order, first atom most significant
    index = {c: k for k, c in enumerate(confs)}
    H = np.zeros((d ** n, d ** n), dtype=complex)
    for (i, basis), (D, dl) in vals.items():
        a, b = AB[basis]
        if a not in eb or b not in eb:
            if D != 0 or dl != 0:
                raise InfraError("reference renderer: driven transition outside the eigenbasis")
            continue
        ia, ib = eb.index(a), eb.index(b)
        for c in confs:
            if c[i] == ib:
                k = index[c]
                H[k, k] += -dl
                c2 = c[:i] + (ia,) + c[i + 1:]
                H[index[c2], k] += D              # |a><b|
                H[k, index[c2]] += np.conj(D)     # |b><a|
    for (i, j), u in U.items():
        if info.xy:
            iu, idn = eb.index("u"), eb.index("d")
            for c in confs:
                if c[i] == iu and c[j] == idn:
                    c2 = list(c)
                    c2[i], c2[j] = idn, iu
                    k, k2 = index[c], index[tuple(c2)]
                    H[k, k2] += u
                    H[k2, k] += u
        else:
            ir = eb.index("r")
            for c in confs:
                if c[i] == ir and c[j] == ir:
                    H[index[c], index[c]] += u
    return H


# ----------------------------------------------------------------------------------------------
# generator
# ----------------------------------------------------------------------------------------------
PHASES = [0.0, 0.0, 0.0, math.pi / 2, math.pi, 1.0, -0.7, 2.5, 5.5, 3 * math.pi / 2]
AMPS = [0.0, 0.5, 1.0, 2.0, 3.25, 6.0, 9.5]
DETS = [0.0, 0.0, -1.0, 0.75, 2.0, -4.5, 8.0, -12.0]


def _coords(rng, n, dim, dmin, span):
    for _ in range(200):
        pts = [[round(rng.uniform(-span, span), rng.choice([0, 1, 3])) for _ in range(dim)] for _ in range(n)]
        ok = all(math.dist(p, q) >= dmin for p, q in itertools.combinations(pts, 2))
        if ok:
            return pts
    return [[dmin * 1.5 * i] + [0.0] * (dim - 1) for i in range(n)]


def _amp_spec(rng, grid):
    r = rng.random()
    if r < 0.55:
        return ["const", rng.choice(AMPS)]
    if r < 0.8:
        return ["ramp", rng.choice(AMPS[1:]), rng.choice(AMPS)]
    if r < 0.9 and not grid:
        return ["custom", [rng.choice(AMPS[1:]) for _ in range(rng.randrange(2, 6))]]
    return ["const", rng.choice(AMPS[1:])]


def _det_spec(rng):
    r = rng.random()
    if r < 0.6:
        return ["const", rng.choice(DETS)]
    if r < 0.9:
        return ["ramp", rng.choice(DETS), rng.choice(DETS)]
    return ["custom", [rng.choice(DETS) for _ in range(rng.randrange(2, 6))]]


def gen_case(rng: random.Random) -> dict:
    """One small program.  Every random choice comes from `rng`."""
    mode = rng.choices(["gr", "digital", "all", "xy"], [30, 12, 30, 28])[0]
    base = rng.choices(["MockDevice", "Virtual", "DigitalAnalogDevice", "AnalogDevice"], [45, 25, 20, 10])[0]
    if mode == "xy" and base in ("DigitalAnalogDevice", "AnalogDevice"):
        base = rng.choice(["MockDevice", "Virtual"])
    if base == "AnalogDevice" and mode != "gr":
        base = "DigitalAnalogDevice" if mode in ("all", "digital") else "MockDevice"
    physical = base in ("DigitalAnalogDevice", "AnalogDevice")
    n = rng.choices([1, 2, 3], [10, 45, 45])[0]
    labels = rng.choice([["q0", "q1", "q2"], ["a", "b", "c"], [0, 1, 2], ["z", "m", "a"], [7, 3, 5]])[:n]
    rng.shuffle(labels)
    dspec = {"base": base, "rydberg_level": rng.randrange(50, 101)}
    if base == "MockDevice" and rng.random() < 0.3:
        dspec["rydberg_level"] = None            # the stock device (level 70)
    if base in ("MockDevice", "Virtual"):
        dspec["c3"] = rng.choice([3700.0, 1234.5, 8000.0, 512.0])
    # --- register
    if base == "AnalogDevice":
        traps = rng.sample(range(61), n)
        rspec = {"dim": 2, "layout": True, "atoms": [[q, None, tr] for q, tr in zip(labels, traps)]}
    else:
        dim = 2 if physical else rng.choice([2, 3])
        pts = _coords(rng, n, dim, 4.5 if physical else 3.0, 12.0 if physical else 9.0)
        rspec = {"dim": dim, "atoms": [[q, p] for q, p in zip(labels, pts)]}
    # --- channels
    ops = []
    if mode == "xy":
        pool = ["mw_global"]
    elif base == "AnalogDevice":
        pool = ["rydberg_global"]
    elif base == "DigitalAnalogDevice":
        pool = {"gr": ["rydberg_global", "rydberg_local"], "digital": ["raman_local"],
                "all": ["rydberg_global", "raman_local", "rydberg_local"]}[mode]
    else:
        pool = {"gr": ["rydberg_global", "rydberg_local"], "digital": ["raman_global", "raman_local"],
                "all": ["rydberg_global", "raman_local", "rydberg_local", "raman_global"]}[mode]
    reusable = base == "MockDevice" or (base == "Virtual" and rng.random() < 0.6)
    if base == "Virtual":
        dspec["channels"] = ["rydberg_global", "rydberg_local", "raman_global", "raman_local", "mw_global"]
        dspec["reusable"] = reusable
    # EOM-capable global Rydberg channel: the custom device (short rise times) or AnalogDevice (240 ns buffers)
    want_eom = mode in ("gr", "all") and ((base == "Virtual" and rng.random() < 0.5)
                                          or (base == "AnalogDevice" and rng.random() < 0.35))
    if want_eom and base == "Virtual":
        dspec["eom"] = rng.choice([[80, 160], [40, 120], [120, 240]])
    nch = rng.choices([1, 2, 3], [35, 40, 25])[0]
    chosen = []
    if mode == "all":
        # make sure both bases are addressed (mostly)
        chosen = [rng.choice([c for c in pool if c.startswith("rydberg")]),
                  rng.choice([c for c in pool if c.startswith("raman")])]
        nch = max(nch, 2)
    if want_eom and "rydberg_global" not in chosen:
        chosen.append("rydberg_global")
        nch = max(nch, len(chosen) + (1 if base != "AnalogDevice" and rng.random() < 0.7 else 0))
    while len(chosen) < nch:
        c = rng.choice(pool)
        if c in chosen and not reusable:
            if all(p in chosen for p in pool):
                break
            continue
        chosen.append(c)
    rng.shuffle(chosen)
    if mode == "xy" and rng.random() < 0.8:
        b = rng.choice([[0.0, 0.0, 30.0], [10.0, -5.0, 20.0], [1.0, 0.0, 0.0], [3.0, 4.0, 0.0], [-2.0, 7.0, 1.5]])
        ops.append({"k": "field", "b": b})
    chans = []
    ch_ops = []
    for k, cid in enumerate(chosen):
        name = f"c{k}"
        op = {"k": "channel", "name": name, "id": cid}
        if cid.endswith("local"):
            op["init"] = rng.choice(labels)     # (an untargeted local channel cannot be sampled at all)
        ch_ops.append(op)
        chans.append((name, cid))
    # --- detuning map / SLM: configured before, between or after the channel declarations (the order of
    #     declaration is the order in which the sampler walks the channels)
    dmms = []
    after_dmm = set()       # channels declared after a DMM exists
    has_dmm_dev = base != "AnalogDevice"
    if mode in ("gr", "all") and has_dmm_dev and rng.random() < 0.45:
        ws = [[q, rng.choice([1.0, 0.5, 0.25, 0.0, 0.0, 0.8])] for q in labels if rng.random() < 0.8] \
            or [[labels[0], 0.5]]
        pos = rng.choice([0, 0, len(ch_ops), rng.randrange(0, len(ch_ops) + 1)])
        ch_ops.insert(pos, {"k": "detmap", "dmm_id": "dmm_0", "weights": ws})
        after_dmm |= {o["name"] for o in ch_ops[pos + 1:]}
        dmms.append("dmm_0")
    ops += ch_ops
    slm_pending = None
    want_slm = has_dmm_dev and n >= 1 and (
        (mode == "xy" and rng.random() < 0.5) or (mode in ("gr", "all") and rng.random() < 0.2))
    if want_slm:
        if mode != "xy" and dmms and not reusable and base != "Virtual":
            want_slm = False
    if want_slm:
        k = rng.randrange(1, n + 1) if n > 1 else 1
        slm = {"k": "slm", "q": rng.sample(labels, k)}
        if mode != "xy" and dmms:
            slm["dmm_id"] = "dmm_0" if reusable else "dmm_1"
        r = rng.random()
        if mode != "xy" and r < 0.3:
            # Ising SLM mask = a DMM: configure it before / between the channel declarations too
            first_ch = next(i for i, o in enumerate(ops) if o["k"] in ("channel", "detmap"))
            pos = rng.randrange(first_ch, len(ops) + 1)
            after_dmm |= {o["name"] for o in ops[pos:] if o["k"] == "channel"}
            ops.insert(pos, slm)
        elif r < 0.65:
            ops.append(slm)
        else:
            slm_pending = slm
    # --- pulses
    grid = physical
    body = []
    nops = rng.randrange(2, 7)
    for _ in range(nops):
        name, cid = rng.choice(chans)
        r = rng.random()
        dur = rng.choice([16, 20, 24, 32]) if grid else rng.randrange(1, 11)
        if r < 0.62:
            amp = _amp_spec(rng, grid)
            det = _det_spec(rng)
            if dur < 2:                          # RampWaveform(1, …) is NaN (C16 / F6), not C05's business
                amp = ["const", amp[1]] if amp[0] == "ramp" else amp
                det = ["const", det[1]] if det[0] == "ramp" else det
            if physical:
                amp = [amp[0]] + [(min(x, 6.0) if not isinstance(x, list) else [min(y, 6.0) for y in x]) for x in amp[1:]]
            op = {"k": "add", "ch": name, "dur": dur, "amp": amp, "det": det, "phase": rng.choice(PHASES),
                  "protocol": rng.choices(["min-delay", "no-delay", "wait-for-all"], [60, 25, 15])[0]}
            if rng.random() < 0.15:
                op["post"] = rng.choice([0.3, -1.2, math.pi])
            body.append(op)
        elif r < 0.72 and cid.endswith("local") and n > 1:
            body.append({"k": "target", "ch": name, "q": rng.choice(labels)})
        elif r < 0.8:
            body.append({"k": "delay", "ch": name, "dur": dur})
        elif r < 0.87 and dmms:
            body.append({"k": "dmm", "ch": dmms[0], "dur": dur,
                         "det": rng.choice([["const", -rng.choice([1.0, 3.5, 10.0])]]
                                           + ([["ramp", -8.0, -0.5], ["ramp", 0.0, -6.0]] if dur >= 2 else [])),
                         "protocol": rng.choice(["no-delay", "min-delay"])})
        elif r < 0.93 and len(chans) > 1:
            body.append({"k": "align", "chs": [c for c, _ in chans]})
        elif r < 0.97 and mode != "xy":
            basis = "digital" if cid.startswith("raman") else "ground-rydberg"
            body.append({"k": "phase_shift", "phi": rng.choice([0.4, -1.0, math.pi / 2]),
                         "q": rng.sample(labels, rng.randrange(1, n + 1)), "basis": basis})
        else:
            body.append({"k": "delay", "ch": name, "dur": dur})
    if mode == "xy" and want_slm:
        # (an XY SLM mask + a global channel without any pulse makes to_nested_dict raise IndexError — the
        #  emulator cannot be built; keep a few such programs, they are counted as `emulator-error`)
        for name, cid in chans:
            if not any(o["k"] == "add" and o["ch"] == name for o in body) and rng.random() < 0.85:
                body.append({"k": "add", "ch": name, "dur": rng.randrange(2, 9), "amp": ["const", rng.choice(AMPS[1:])],
                             "det": _det_spec(rng), "phase": rng.choice(PHASES), "protocol": "min-delay"})
    if want_eom:
        # enable -> EOM pulses / idle -> disable (mostly), then something longer on another channel, so that the
        # Hamiltonian is sampled after the EOM channel's own end (and always at t = duration)
        ename = next(nm for nm, cid in chans if cid == "rydberg_global")
        seg = [{"k": "eom_on", "ch": ename, "amp_on": rng.choice([2.0, 3.5, 6.0]), "det_on": rng.choice([0.0, 1.0, -2.0]),
                "det_off": rng.choice([0.0, -5.0, 3.0, -12.0])}]
        for _ in range(rng.randrange(1, 4)):
            if rng.random() < 0.75:
                seg.append({"k": "eom_pulse", "ch": ename, "dur": rng.choice([16, 20, 32]) if grid else rng.randrange(2, 9),
                            "phase": rng.choice(PHASES), "protocol": rng.choice(["min-delay", "no-delay"])})
            else:
                seg.append({"k": "delay", "ch": ename, "dur": rng.choice([16, 24]) if grid else rng.randrange(2, 9)})
        closed = rng.random() < 0.75
        if closed:
            seg.append({"k": "eom_off", "ch": ename})
        others = [(nm, cid) for nm, cid in chans if nm != ename]
        if others and rng.random() < 0.85:
            nm, cid = rng.choice(others)
            seg.append({"k": "add", "ch": nm, "dur": rng.randrange(8, 30), "amp": ["const", rng.choice(AMPS[1:5])],
                        "det": _det_spec(rng), "phase": rng.choice(PHASES),
                        "protocol": rng.choice(["no-delay", "min-delay", "wait-for-all"])})
        if closed:
            pos = rng.randrange(0, len(body) + 1)
            body[pos:pos] = seg
        else:       # a channel left in EOM mode refuses ordinary pulses: nothing else on it afterwards
            body = [o for o in body if o.get("ch") != ename and o["k"] != "align"] + seg
    # channels declared after a DMM must play a detuned pulse (a DMM's per-atom weights must not leak onto them)
    for name, cid in chans:
        if name in after_dmm and rng.random() < 0.9 and not any(
                o["k"] == "add" and o["ch"] == name and o["det"][0] == "const" and o["det"][1] != 0.0 for o in body):
            body.insert(rng.randrange(0, len(body) + 1),
                        {"k": "add", "ch": name, "dur": rng.choice([16, 20]) if grid else rng.randrange(2, 9),
                         "amp": ["const", rng.choice(AMPS[:5])], "det": ["const", rng.choice([d for d in DETS if d])],
                         "phase": rng.choice(PHASES), "protocol": rng.choice(["min-delay", "no-delay"])})
    if slm_pending is not None:
        body.insert(rng.randrange(0, len(body) + 1), slm_pending)
    ops += body
    case = {"device": dspec, "reg": rspec, "mode": mode, "ops": ops}
    if rng.random() < 0.08:
        case["prelude"] = "leakage-zero"      # history: another emulator (leakage level, idle program) built first
    return case


def build_padded(case):
    """Build the sequence; drop ops the real API rejects (recorded) and make it at least 4 ns long."""
    from pulser import Sequence  # noqa: F401

    ops = list(case["ops"])
    rejected = []
    while True:
        try:
            seq, reg, device = build({**case, "ops": ops})
            break
        except InfraError:
            raise
        except Exception as e:  # noqa: BLE001 - an op the API refuses: remove the first offender
            bad = _first_failing(case, ops)
            if bad is None:
                raise InfraError(f"cannot build case: {e!r}")
            rejected.append((ops[bad]["k"], type(e).__name__))
            ops = ops[:bad] + ops[bad + 1:]
    return seq, reg, device, ops, rejected


def _first_failing(case, ops):
    for k in range(1, len(ops) + 1):
        try:
            build({**case, "ops": ops[:k]})
        except InfraError:
            raise
        except Exception:  # noqa: BLE001
            return k - 1
    return None


# ----------------------------------------------------------------------------------------------
# model side (pm_ham)
# ----------------------------------------------------------------------------------------------
def _fb(x: float) -> str:
    return str(struct.unpack("<Q", struct.pack("<d", float(x)))[0])


def _bf(s: str) -> float:
    return struct.unpack("<d", struct.pack("<Q", int(s)))[0]


def split_values(info: Rendered, t: int):
    """The same contributions laid out like the samples dictionary: one global drive per basis (channels of
    class G, unless an XY mask is on) and one local drive per (atom, basis).  Each drive is
    (Omega, delta, cos phi, sin phi)."""
    mask_on = bool(info.xy and info.mask and t < info.mask_end)
    glob = {b: [] for b in BASES}
    loc = {(i, b): [] for i in range(info.n) for b in BASES}
    for c in info.contribs:
        if not (c.ti <= t < c.tf):
            continue
        k = t - c.ti
        if c.cls == "G" and not mask_on:
            glob[c.basis].append((c.amp[k], c.det[k], c.phase))
            continue
        for i, w in enumerate(c.weights):
            if w == 0.0 or (mask_on and i in info.mask):
                continue
            if c.cls == "D":
                loc[(i, c.basis)].append((0.0, w * c.det[k], 0.0))
            else:
                loc[(i, c.basis)].append((c.amp[k], c.det[k], c.phase))

    def merge(items):
        if not items:
            return (0.0, 0.0, 1.0, 0.0)
        det = sum(x[1] for x in items)
        active = [x for x in items if x[0] != 0.0]
        if len(active) <= 1:
            a, _, ph = active[0] if active else (0.0, 0.0, 0.0)
            return (a, det, math.cos(ph), math.sin(ph))
        D = sum(0.5 * a * complex(math.cos(ph), -math.sin(ph)) for a, _, ph in active)
        m = abs(D)
        if m == 0.0:
            return (0.0, det, 1.0, 0.0)
        return (2 * m, det, D.real / m, -D.imag / m)

    return mask_on, {b: merge(v) for b, v in glob.items()}, {k: merge(v) for k, v in loc.items()}


def ham_request(info: Rendered, t: int, out: str) -> str:
    mask_on, glob, loc = split_values(info, t)
    coef = info.c3 if info.xy else info.c6
    field = info.field if info.xy else [0.0, 0.0, 0.0]
    drv = lambda d4: ",".join(_fb(x) for x in d4)  # noqa: E731
    return " ".join([
        "ham", out, str(info.n), "".join(info.eigenbasis), "1" if info.xy else "0", "1" if mask_on else "0",
        "[" + ",".join(str(i) for i in info.mask) + "]", _fb(coef),
        "[" + ",".join(_fb(x) for x in field) + "]",
        "[" + ";".join(",".join(_fb(x) for x in c) for c in info.coords) + "]",
        "[" + ";".join(drv(glob[b]) for b in BASES) + "]",
        "[" + ";".join(drv(loc[(i, b)]) for i in range(info.n) for b in BASES) + "]",
    ])


def parse_matrix(reply: str) -> np.ndarray:
    parts = reply.split(" ")
    if parts[0] != "ok":
        raise InfraError(f"pm_ham: {reply[:200]}")
    N = int(parts[1])
    H = np.zeros((N, N), dtype=complex)
    if len(parts) > 2 and parts[2]:
        for item in parts[2].split(";"):
            i, j, re, im = item.split(",")
            H[int(i), int(j)] = complex(_bf(re), _bf(im))
    return H


class Model:
    def __init__(self):
        self.drv = common.Driver("pm_ham")
        self.cache = {}
        self.requests = 0

    def ask(self, line):
        r = self.cache.get(line)
        if r is None:
            r = self.drv.ask(line)
            self.requests += 1
            if len(self.cache) > 4000:
                self.cache.clear()
            self.cache[line] = r
        return r

    def matrix(self, info, t, out="code"):
        return parse_matrix(self.ask(ham_request(info, t, out)))

    def check_consts(self):
        """Tie of the constants of the model (and of this harness) to the live code."""
        from pulser.channels.base_channel import EIGENSTATES as E, STATES_RANK as SR

        r = self.ask("consts")
        want = ("ok rank=" + "".join(SR) + " gr=" + "".join(E["ground-rydberg"]) + ":g,r dig="
                + "".join(E["digital"]) + ":h,g xy=" + "".join(E["XY"]) + ":d,u")
        ok = (r == want and list(SR) == STATES_RANK and {k: list(v) for k, v in E.items()} == EIGENSTATES)
        return ok, f"model: {r!r}  live: {want!r}"

    def eigenbasis(self, used, xy):
        code = "".join({"ground-rydberg": "g", "digital": "d", "XY": "x"}[b] for b in used) or "-"
        r = self.ask(f"eig {code} {1 if xy else 0}")
        if not r.startswith("ok "):
            raise InfraError(f"pm_ham eig: {r}")
        return list(r[3:])

    def close(self):
        self.drv.close()


# ----------------------------------------------------------------------------------------------
# comparison, monitor, classification
# ----------------------------------------------------------------------------------------------
RTOL = 1e-9


def mismatches(A: np.ndarray, B: np.ndarray):
    """Entries where A and B differ by more than rel 1e-9 (plus 1e-11 of the matrix scale, for the
    rounding of U − delta on the diagonal and of the spline evaluation of the coefficients)."""
    if A.shape != B.shape:
        return [(-1, -1)]
    scale = max(1.0, float(np.abs(B).max()), float(np.abs(A).max()))
    tol = RTOL * np.maximum(np.abs(A), np.abs(B)) + 1e-11 * scale
    bad = np.argwhere(~(np.abs(A - B) <= tol))          # NaN counts as a mismatch
    return [tuple(int(x) for x in ij) for ij in bad]


def entry_kind(info: Rendered, k: int, l: int):
    """('diagonal'|'drive'|'exchange'|'other', atoms that differ)."""
    d, n = info.d, info.n
    sk = [(k // d ** (n - 1 - j)) % d for j in range(n)]
    sl = [(l // d ** (n - 1 - j)) % d for j in range(n)]
    diff = [j for j in range(n) if sk[j] != sl[j]]
    kind = {0: "diagonal", 1: "drive", 2: "exchange"}.get(len(diff), "other")
    return kind, diff, sk, sl


def _phase_sum_explains(info: Rendered, t: int, k: int, l: int, value: complex) -> bool:
    """Is the real entry (k, l) what one gets by ADDING the phases of the channels of one addressing class that
    drive the same basis AT THE SAME TIME (F23b: genuinely overlapping pulses; the non-overlapping case, F23, is fixed)?  value must equal  Σ_class (Σ_c Ω_c(t)/2)·e^{∓i Σ_c ψ_c}  with ψ_c one of the
    phases programmed on channel c (or 0)."""
    kind, diff, sk, sl = entry_kind(info, k, l)
    if kind != "drive":
        return False
    i = diff[0]
    eb = info.eigenbasis
    for basis in BASES:
        a, b = AB[basis]
        if a not in eb or b not in eb:
            continue
        ia, ib = eb.index(a), eb.index(b)
        if (sk[i], sl[i]) == (ia, ib):
            sign = -1.0
        elif (sk[i], sl[i]) == (ib, ia):
            sign = 1.0
        else:
            continue
        mask_on = bool(info.xy and info.mask and t < info.mask_end)
        if mask_on and i in info.mask:
            return False
        per_class = []
        multi = False
        for cls in ("G", "L"):
            chans = collections.OrderedDict()
            for c in info.contribs:
                if c.basis == basis and c.cls == cls and c.weights[i] != 0.0:
                    chans.setdefault(c.ch, []).append(c)
            amp = 0.0
            driving = 0
            for cs in chans.values():
                a_ch = sum(c.amp[t - c.ti] for c in cs if c.ti <= t < c.tf)
                amp += a_ch
                driving += 1 if a_ch != 0.0 else 0
            phase_sets = [sorted({0.0} | {c.phase for c in cs}) for cs in chans.values()]
            # true overlap only: at least two channels of the class drive this atom at this very time
            if driving >= 2 and any(c.phase % (2 * math.pi) != 0.0 for cs in chans.values() for c in cs):
                multi = True
            sums = {0.0}
            for ps in phase_sets:
                sums = {round(x + p, 12) for x in sums for p in ps}
                if len(sums) > 4000:
                    return False
            per_class.append([0.5 * amp * complex(math.cos(s), sign * math.sin(s)) for s in sums])
        if not multi:
            return False
        for vg in per_class[0]:
            for vl in per_class[1]:
                if abs(value - (vg + vl)) <= 1e-9 * max(1.0, abs(value)):
                    return True
    return False


def analyse(info: Rendered, t: int, Hr: np.ndarray, Hd: np.ndarray):
    """Monitor at one time: hermiticity of the real matrix and equality with the documented formula.
    Returns a list of failures {clause, key, msg, entries}."""
    fails = []
    herm = mismatches(Hr, Hr.conj().T)
    if herm:
        fails.append(dict(clause="hermitian", key={"clause": "hermitian"},
                          msg=f"t={t}: H(t) is not hermitian at entries {herm[:4]}"))
    bad = mismatches(Hr, Hd)
    if not bad:
        return fails
    if bad == [(-1, -1)]:
        fails.append(dict(clause="dimension", key={"clause": "dimension"},
                          msg=f"t={t}: dimension {Hr.shape} != {Hd.shape}"))
        return fails
    groups = collections.defaultdict(list)
    Hoff = None
    for (k, l) in bad:
        kind = entry_kind(info, k, l)[0]
        if kind == "drive" and _phase_sum_explains(info, t, k, l, Hr[k, l]):
            groups[("drive", "overlapping-same-basis-pulses-phase-sum")].append((k, l))
            continue
        if kind == "exchange" and info.xy and info.mask and t == info.mask_end:
            if Hoff is None:
                Hoff = doc_hamiltonian(info, t, slm_off_by_one=True)
            if abs(Hr[k, l] - Hoff[k, l]) <= RTOL * max(abs(Hr[k, l]), abs(Hoff[k, l])) + 1e-11:
                groups[("exchange", "slm-mask-end-off-by-one")].append((k, l))
                continue
        groups[(kind, "unexplained")].append((k, l))
    for (kind, cause), entries in groups.items():
        k, l = entries[0]
        fails.append(dict(
            clause=kind, key={"clause": kind, "cause": cause}, entries=entries[:6],
            msg=f"t={t}: {kind} entry ({k},{l}) real={Hr[k, l]:.12g} documented={Hd[k, l]:.12g} ({cause}; "
                f"{len(entries)} entries)"))
    return fails


# findings carried by this module until they are moved to /verif/known_findings.jsonl (integration note)
def local_findings():
    out = []
    f = common.CORPUS / PROP / "known_findings.jsonl"
    if f.exists():
        for line in f.read_text().splitlines():
            line = line.strip()
            if line and not line.startswith("#"):
                out.append(json.loads(line))
    return out


def all_findings():
    glob = common.load_known_findings()
    ids = {f.get("id") for f in glob}
    return glob + [f for f in local_findings() if f.get("id") not in ids]


# ----------------------------------------------------------------------------------------------
# running one case
# ----------------------------------------------------------------------------------------------
@dataclasses.dataclass
class CaseResult:
    status: str                     # ok | short | emulator-error
    info: Rendered | None = None
    ops: list | None = None
    rejected: list | None = None
    fails: list = dataclasses.field(default_factory=list)         # monitor failures (with 't')
    model_div: list = dataclasses.field(default_factory=list)     # model vs real / model vs monitor
    times: int = 0
    nontrivial: bool = False
    detail: str = ""


def _leakage_prelude(xy: bool) -> None:
    """History for the case: an emulator with a leakage level, built first in the same process on a
    program that drives nothing.  The emulator under test must not notice (its state space depends on
    its own sequence only, not on module-level tables another emulator has written to)."""
    import qutip
    from pulser import Pulse, Register, Sequence
    from pulser.devices import MockDevice
    from pulser_simulation import QutipEmulator, SimConfig

    try:
        with warnings.catch_warnings():
            warnings.simplefilter("ignore")
            seq = Sequence(Register({"a": (0, 0), "b": (7, 0)}), MockDevice)
            seq.declare_channel("c", "mw_global" if xy else "rydberg_global")
            seq.add(Pulse.ConstantPulse(100, 0.0, 0.0, 0.0), "c")
            QutipEmulator.from_sequence(seq, config=SimConfig(
                noise=("leakage", "eff_noise"), eff_noise_opers=[qutip.Qobj(np.diag([0, 0, 1.0]))],
                eff_noise_rates=[0.1]))
    except Exception:  # noqa: BLE001 — a refused prelude is no history at all
        pass


def run_case(model: Model, case: dict, verbose: bool = False) -> CaseResult:
    from pulser_simulation import QutipEmulator

    if case.get("prelude") == "leakage-zero":
        _leakage_prelude(case.get("mode") == "xy")
    seq, reg, device, ops, rejected = build_padded(case)
    try:
        info = render(seq, case, ops)
    except RenderMismatch as e:
        res = CaseResult("ok", None, ops, rejected)
        res.fails.append(dict(t=0, clause="dmm-weights", key={"clause": "dmm-weights"}, msg=str(e)))
        return res
    res = CaseResult("ok", info, ops, rejected)
    if info.T < 4:
        res.status = "short"
        return res
    try:
        em = QutipEmulator.from_sequence(seq, sampling_rate=1.0)
    except Exception as e:  # noqa: BLE001 — the emulator refuses the program: no Hamiltonian to speak about
        res.status = "emulator-error"
        res.detail = f"{type(e).__name__}: {str(e)[:80]}"
        return res
    # documented state ordering
    real_eb = list(em._hamiltonian.eigenbasis)
    basis_vecs = {s: int(np.argmax(np.abs(v.full()))) for s, v in em.basis.items()}
    model_eb = model.eigenbasis(info.used_bases, info.xy)
    if not (real_eb == info.eigenbasis == model_eb and all(basis_vecs[s] == i for i, s in enumerate(real_eb))
            and em.dim == len(real_eb)):
        res.fails.append(dict(t=0, clause="state-order", key={"clause": "state-order"},
                              msg=f"eigenbasis real={real_eb} basis vectors={basis_vecs} documented={info.eigenbasis} "
                                  f"model={model_eb} (used bases {info.used_bases}, basis_name {em.basis_name})"))
        return res
    for t in range(info.T + 1):
        Hr = np.asarray(em.get_hamiltonian(t).full())
        Hd = doc_hamiltonian(info, t)
        Hm = model.matrix(info, t, "code")
        res.times += 1
        if not res.nontrivial and np.abs(Hr - np.diag(np.diag(Hr))).max() > 0:
            res.nontrivial = True
        fs = analyse(info, t, Hr, Hd)
        for f in fs:
            f["t"] = t
        res.fails += fs
        md = mismatches(Hm, Hd)
        if md:
            res.model_div.append(dict(t=t, what="model(code) vs numpy formula", entries=md[:4]))
        if (t % 7 == 0) or verbose:
            Hm2 = model.matrix(info, t, "doc")
            md2 = mismatches(Hm2, Hm)
            if md2:
                res.model_div.append(dict(t=t, what="model(doc) vs model(code)", entries=md2[:4]))
        if not fs:
            mr = mismatches(Hm, Hr)
            if mr:
                res.model_div.append(dict(t=t, what="model(code) vs real", entries=mr[:4]))
        if verbose:
            print(f"t={t:3d} real-vs-doc {'OK ' if not fs else 'FAIL'} model-vs-doc {'OK' if not md else 'FAIL'}"
                  + "".join("\n      " + f["msg"] for f in fs))
    return res


def features(case, info: Rendered | None):
    fs = []
    ks = [o["k"] for o in case["ops"]]
    if "detmap" in ks:
        fs.append("dmm")
    dmm_pos = [i for i, k in enumerate(ks) if k in ("detmap", "slm")]
    if dmm_pos and case.get("mode") != "xy" and any(k == "channel" for k in ks[min(dmm_pos) + 1:]):
        fs.append("channel-declared-after-dmm")
    if "slm" in ks:
        fs.append("slm")
    if "phase_shift" in ks:
        fs.append("phase_shift")
    if "eom_on" in ks:
        fs.append("eom-closed" if "eom_off" in ks else "eom-left-open")
    if any(o.get("protocol") == "no-delay" for o in case["ops"]):
        fs.append("no-delay")
    if case["reg"].get("dim") == 3:
        fs.append("3D")
    if case.get("prelude"):
        fs.append("prelude:" + case["prelude"])
    if info is not None:
        per = collections.Counter((c.basis, c.cls) for c in {(c.ch, c.basis, c.cls): c for c in info.contribs}.values())
        if any(v >= 2 for (b, cls), v in per.items() if cls != "D"):
            fs.append("multi-channel-same-basis-same-addressing")
        bases = collections.Counter(b for (b, cls) in per if cls != "D")
        if any(cls == "L" for _, cls in per):
            fs.append("local")
        if any(cls == "G" for _, cls in per):
            fs.append("global")
        if len({(b, cls) for (b, cls) in per if cls != "D"}) > len(bases):
            fs.append("global+local-same-basis")
    return fs


def shrink(model: Model, case: dict, pred) -> dict:
    """Greedy removal of ops (keeps declarations needed by later ops because a failing build rejects the candidate)."""
    best = case
    changed = True
    while changed:
        changed = False
        for a in range(len(best["reg"]["atoms"]) - 1, -1, -1):       # drop an atom nothing refers to
            if len(best["reg"]["atoms"]) < 2:
                break
            cand = {**best, "reg": {**best["reg"], "atoms": best["reg"]["atoms"][:a] + best["reg"]["atoms"][a + 1:]}}
            try:
                build(cand)
                r = run_case(model, cand)
            except Exception:  # noqa: BLE001
                continue
            if r.status == "ok" and pred(r):
                best = cand
                changed = True
                break
        if changed:
            continue
        for k in range(len(best["ops"]) - 1, -1, -1):
            cand = {**best, "ops": best["ops"][:k] + best["ops"][k + 1:]}
            try:
                seq, *_ = build(cand)
                r = run_case(model, cand)
            except Exception:  # noqa: BLE001
                continue
            if r.status == "ok" and pred(r):
                best = cand
                changed = True
                break
    return best


# ----------------------------------------------------------------------------------------------
# check / replay
# ----------------------------------------------------------------------------------------------
def lean_obligations():
    ok, out = common.lake_build(LEAN_TARGETS)
    if not ok:
        raise InfraError("lake build failed:\n" + out[-3000:])
    thms = common.property_theorems(PROP)
    bad_tokens = [h for h in common.lean_forbidden_tokens()
                  if any(x in h for x in ("Hamiltonian.lean", "C05.lean", "HamMain.lean"))]
    if bad_tokens:
        raise InfraError("forbidden tokens in Lean sources: " + "; ".join(bad_tokens[:5]))
    axioms = common.audit_axioms(f"Properties.{PROP}", thms) if thms else {}
    offending = {t: axioms.get(t) for t in thms
                 if axioms.get(t) is None or not set(axioms[t]) <= common.ALLOWED_AXIOMS}
    if offending:
        raise InfraError(f"axiom audit failed: {offending}")
    return thms, axioms


def corpus_cases():
    d = common.CORPUS / PROP
    out = []
    if d.exists():
        for f in sorted(d.glob("*.json")):
            item = json.loads(f.read_text())
            out.append((f.name, item["case"]))
    return out


def check(tier: str, seed: int) -> int:
    timer = Timer()
    thms, axioms = lean_obligations()
    model = Model()
    findings = all_findings()
    rng = random.Random(f"{PROP}-{seed}")
    hist = {k: collections.Counter() for k in
            ("mode", "device", "atoms", "eigenbasis", "dim", "feature", "status", "rejected_op", "emulator_error",
             "level", "ops")}
    violations, known_hits, model_divs, samples = [], collections.Counter(), [], []
    distinct, nontrivial = set(), set()
    evaluations = 0
    seen_keys = set()

    ok, detail = model.check_consts()
    if not ok:
        violations.append(dict(property=PROP, kind="tie", broken="STATES_RANK / EIGENSTATES of the live code differ "
                               "from the constants of PulserModel/Hamiltonian.lean: " + detail,
                               no_failing_input_found=True))

    def handle(case, origin):
        nonlocal evaluations
        r = run_case(model, case)
        canon = json.dumps(case, sort_keys=True)
        hist["status"][r.status] += 1
        hist["mode"][case.get("mode", "?")] += 1
        hist["device"][case["device"]["base"]] += 1
        for k, e in (r.rejected or []):
            hist["rejected_op"][f"{k}:{e}"] += 1
        if r.status == "emulator-error":
            hist["emulator_error"][r.detail] += 1
        if r.status != "ok":
            return
        info = r.info
        evaluations += r.times
        distinct.add(canon)
        if r.nontrivial:
            nontrivial.add(canon)
        if info is not None:
            hist["atoms"][info.n] += 1
            hist["eigenbasis"]["".join(info.eigenbasis)] += 1
            hist["dim"][info.d ** info.n] += 1
            hist["level"][info.level] += 1
        for o in r.ops:
            hist["ops"][o["k"]] += 1
        for f in features({**case, "ops": r.ops}, info):
            hist["feature"][f] += 1
        if info is not None and len(samples) < 3 and info.n >= 2 and len(r.ops) >= 5:
            samples.append(dict(origin=origin, case={**case, "ops": r.ops}, duration=info.T,
                                eigenbasis=info.eigenbasis))
        for f in r.fails:
            kf = match_known(PROP, f["key"], findings)
            if kf is not None:
                known_hits[kf["id"]] += 1
                continue
            sig = json.dumps(f["key"], sort_keys=True)
            if sig in seen_keys:
                continue
            seen_keys.add(sig)
            key = f["key"]
            small = shrink(model, {**case, "ops": r.ops},
                           lambda rr, key=key: any(ff["key"] == key for ff in rr.fails))
            violations.append(dict(property=PROP, kind="monitor", clause=f["clause"], key=key, message=f["msg"],
                                   t=f["t"], case=small))
        if r.model_div:
            model_divs.append(dict(case={**case, "ops": r.ops}, divergences=r.model_div[:5]))

    for name, case in corpus_cases():
        handle(case, f"corpus/{name}")
    n = N_CASES[tier]
    for _ in range(n):
        handle(gen_case(rng), "generated")
        if violations and tier == "quick":
            break
    if model_divs and not [v for v in violations if v.get("kind") == "monitor"]:
        # the tie between the model and the implementation is broken although the monitor saw nothing: search on
        for _ in range(200 if tier == "quick" else 2000):
            handle(gen_case(rng), "search")
            if [v for v in violations if v.get("kind") == "monitor"]:
                break
        if not [v for v in violations if v.get("kind") == "monitor"]:
            violations.append(dict(property=PROP, kind="correspondence",
                                   broken="lean/PulserModel/Hamiltonian.lean (pm_ham) disagrees with the numpy formula / "
                                          "the real matrix without a monitor failure",
                                   theorems=thms, **model_divs[0], no_failing_input_found=True))
    requests = model.requests
    model.close()
    ev = dict(
        property_id=PROP, tier=tier, seed=seed, level="other",
        coverage=dict(
            explanation=(
                "PARTIAL. Proved in Lean 4 (Properties/C05.lean, over any commutative ring with an involutive "
                "conjugation, any number of atoms and levels): the Hamiltonian assembled the way "
                "_construct_hamiltonian does it (Kronecker products in register order, coefficient Ω/2·e^{-iφ} on σ_ab "
                "and −δ/2 on σ_bb, global operators as sums over atoms, U/2·n_i n_j resp. U·σ_ud σ_du over pairs with "
                "masked atoms skipped, then + dagger) equals the documented formula entry by entry "
                "(H_code_eq_H_doc), is hermitian (H_code_hermitian, H_doc_hermitian), tensor order "
                "(tensor_index, tensor_entries, index_digits), n_i n_j diagonal / exchange only swaps "
                "(vdw_entries, vdw_diagonal, xy_exchange_entries, xy_exchange_only_swaps, masked_pair_decoupled), "
                "state ordering (eigenbasis_order, eigenbasis_nodup). NOT proved, validated numerically on this run: "
                "that the float64 QuTiP matrix equals the formula — the model (pm_ham, pairs of Float) and an "
                "independent numpy evaluation of the formula are compared with get_hamiltonian(t).full() at every "
                "integer t of generated programs (rel. tol 1e-9), from per-atom values rendered independently from "
                "seq._schedule."),
            obligations=len(thms), discharged=len(thms),
            checker_cmd="cd lean && lake build " + " ".join(LEAN_TARGETS) + "  (+ #print axioms per theorem, "
                        "harness/common.py audit_axioms)",
            trusted_base=TRUSTED_BASE, theorems=thms, axioms=axioms,
            evaluations=evaluations, distinct_nontrivial=len(nontrivial),
            programs=len(distinct), traces_validated_against_impl=len(distinct),
            rule="programs drawn by gen_case (device × mode × register × channel set × op list) + corpus/C05; "
                 "one evaluation = one (program, integer time) at which real, model and numpy matrices are compared; "
                 "distinct = distinct program JSON; non-trivial = the real Hamiltonian has a non-zero off-diagonal "
                 "entry at some time (a drive or an exchange term is present)",
            samples=samples, uncovered_clauses=UNCOVERED,
            histograms={k: {str(a): b for a, b in sorted(v.items(), key=lambda kv: str(kv[0]))} for k, v in hist.items()},
            model_requests=requests, model_divergences=len(model_divs),
            known_findings_hit=dict(known_hits), repo_fingerprint=common.repo_fingerprint(),
            tolerance="|a-b| <= 1e-9*max(|a|,|b|) + 1e-11*max(1,|H|_max) per entry",
        ),
        assumptions=TRUSTED_BASE, wall_s=timer.s(), violations=len(violations),
    )
    write_evidence(PROP, ev)
    for kid, cnt in sorted(known_hits.items()):
        kf = next(f for f in findings if f["id"] == kid)
        print(f"KNOWN-FINDING: property={PROP} {kf['what']} (hit at {cnt} sample times)")
    if violations:
        for v in violations:
            p = write_replay(PROP, v)
            tail = " no-failing-input-found" if v.get("no_failing_input_found") else ""
            print(f"VIOLATION property={PROP} replay={p}{tail}")
        return 1
    print(f"OK property={PROP} tier={tier} theorems={len(thms)}/{len(thms)} programs={len(distinct)} "
          f"matrices={evaluations} nontrivial={len(nontrivial)} wall={timer.s()}s")
    return 0


def replay(path: str) -> int:
    item = json.loads(Path(path).read_text())
    case = item.get("case")
    if case is None:
        print(f"replay: {item.get('broken', 'no case in this file')}")
        print(f"VIOLATION property={PROP} replay={path}")
        return 1
    ok, out = common.lake_build(["pm_ham"])
    if not ok:
        raise InfraError("lake build pm_ham failed:\n" + out[-2000:])
    model = Model()
    print(json.dumps(case)[:2000])
    r = run_case(model, case, verbose=True)
    model.close()
    print(f"status={r.status} {r.detail}")
    findings = all_findings()
    bad = False
    for f in r.fails:
        kf = match_known(PROP, f["key"], findings)
        print(("known " + kf["id"] + ": " if kf else "FAIL: ") + f["msg"])
        bad = bad or kf is None
    for d in r.model_div:
        print("MODEL DIVERGENCE:", d)
        bad = True
    if bad:
        print(f"VIOLATION property={PROP} replay={path}")
        return 1
    print("replay: property holds on this case (up to known findings)")
    return 0
