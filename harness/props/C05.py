"""C05 — the emulated Hamiltonian equals the documented formula (PARTIAL, level "other").

Three independent constructions of H(t) are compared at every integer time of
short generated programs:

* real   : QutipEmulator.from_sequence(seq, sampling_rate=1.0).get_hamiltonian(t).full()
* model  : lean/PulserModel/Hamiltonian.lean through the `pm_ham` executable (pairs of
           Float).  The model assembles H the way `_construct_hamiltonian` does
           (Kronecker products, half-Hamiltonian + dagger: `code`) and entry-wise from the
           documented formula (`doc`); Lean proves the two equal over an ideal scalar ring.
* monitor: the documented formula recomputed in numpy (entry-wise over configurations).

The per-atom values  Omega_i(t), delta_i(t), phi_i(t)  come from an INDEPENDENT rendering of
`seq._schedule` (pulse slots, targets, DMM weights from the detuning-map traps, the XY SLM
window) — neither `sample()` nor `to_nested_dict` are used for it.
"""
from __future__ import annotations

import collections
import dataclasses
import itertools
import json
import math
import random
import struct
from pathlib import Path

import numpy as np

import common
from common import InfraError, Timer, match_known, write_evidence, write_replay

PROP = "C05"
LEAN_TARGETS = ["PulserModel.Hamiltonian", "Proofs.Hamiltonian", "Properties.C05", "pm_ham"]
N_CASES = {"quick": 300, "thorough": 6000}

# documented conventions (docs/source/conventions.md); also held by the Lean model and
# compared with the live code at the start of every run (`consts`)
STATES_RANK = ["u", "d", "r", "g", "h", "x"]
EIGENSTATES = {"ground-rydberg": ["r", "g"], "digital": ["g", "h"], "XY": ["u", "d"]}
# basis -> (a, b): coefficient Omega/2 e^{-i phi} on |a><b|, -delta on |b><b|
AB = {"ground-rydberg": ("g", "r"), "digital": ("h", "g"), "XY": ("d", "u")}
BASES = ["ground-rydberg", "digital", "XY"]

TRUSTED_BASE = [
    "Lean 4.33 kernel; axioms allowed: propext, Classical.choice, Quot.sound (audited per theorem)",
    "statements in lean/Properties/C05.lean say what the index/sign/factor clauses of the property say",
    "lean/PulserModel/Hamiltonian.lean corresponds to /repo (checked numerically on generated programs, not proved)",
    "reference renderer in harness/props/C05.py (reads seq._schedule, Pulse waveform .samples, DetuningMap traps)",
    "numpy / qutip leaf functions (Qobj.full, waveform samples), C6_coeffs.json read by the harness itself",
    "Float evaluation: the Lean theorems are over an ideal commutative ring; float64 equality is validated to rel. 1e-9 only",
]

UNCOVERED = [
    "equality of the float64 QuTiP matrix with the formula (float evaluation of exp, 1/R^6, 1/R^3, spline "
    "evaluation of the coefficients): numerical validation at integer times of generated programs only",
    "behaviour between sample times (QobjEvo interpolation) and for sampling_rate < 1",
    "noise (SPAM, doppler, amplitude, leakage) — the property is about the noiseless Hamiltonian",
    "that the per-atom values handed to the model are what the sequence programs: tied by the independent "
    "reference renderer (tested), the scheduler itself is C02/C03/C06/C07",
]


# ----------------------------------------------------------------------------------------------
# case -> real objects
# ----------------------------------------------------------------------------------------------
def _wf(spec, dur):
    from pulser.waveforms import BlackmanWaveform, ConstantWaveform, CustomWaveform, RampWaveform

    k = spec[0]
    if k == "const":
        return ConstantWaveform(dur, spec[1])
    if k == "ramp":
        return RampWaveform(dur, spec[1], spec[2])
    if k == "blackman":
        return BlackmanWaveform(dur, spec[1])
    if k == "custom":
        vals = list(spec[1])
        vals = (vals * (dur // len(vals) + 1))[:dur]
        return CustomWaveform(vals)
    raise InfraError(f"unknown waveform spec {spec}")


def make_device(dspec):
    import pulser.devices as devs
    from pulser.channels import DMM, Microwave, Raman, Rydberg
    from pulser.devices import VirtualDevice

    base = dspec["base"]
    if base == "Virtual":
        chans = []
        ids = []
        for cid in dspec["channels"]:
            cls = {"rydberg": Rydberg, "raman": Raman, "mw": Microwave}[cid.split("_")[0]]
            ctor = cls.Global if cid.endswith("global") else cls.Local
            chans.append(ctor(None, None, max_duration=None))
            ids.append(cid)
        return VirtualDevice(
            name="C05Virtual", dimensions=3, rydberg_level=dspec["rydberg_level"], max_atom_num=None,
            max_radial_distance=None, min_atom_distance=0.0,
            interaction_coeff_xy=float(dspec.get("c3") or 3700.0), supports_slm_mask=True,
            reusable_channels=bool(dspec.get("reusable", False)), channel_objects=tuple(chans),
            channel_ids=tuple(ids), dmm_objects=(DMM(), DMM()),
        )
    dev = getattr(devs, base)
    repl = {}
    if dspec.get("rydberg_level") is not None:
        repl["rydberg_level"] = dspec["rydberg_level"]
    if dspec.get("c3") is not None and base == "MockDevice":
        repl["interaction_coeff_xy"] = float(dspec["c3"])
    return dataclasses.replace(dev, **repl) if repl else dev


def make_register(rspec, device):
    from pulser import Register, Register3D

    atoms = rspec["atoms"]
    if rspec.get("layout"):
        layout = device.pre_calibrated_layouts[0]
        return layout.define_register(*[a[2] for a in atoms], qubit_ids=[a[0] for a in atoms])
    qd = {a[0]: tuple(a[1]) for a in atoms}
    return Register3D(qd) if rspec["dim"] == 3 else Register(qd)


def build(case):
    """Apply the program of `case` to a fresh real Sequence."""
    from pulser import Pulse, Sequence

    device = make_device(case["device"])
    reg = make_register(case["reg"], device)
    seq = Sequence(reg, device)
    for op in case["ops"]:
        k = op["k"]
        if k == "field":
            seq.set_magnetic_field(*op["b"])
        elif k == "channel":
            seq.declare_channel(op["name"], op["id"], initial_target=op.get("init"))
        elif k == "detmap":
            dm = reg.define_detuning_map({q: w for q, w in op["weights"]})
            seq.config_detuning_map(dm, op["dmm_id"])
        elif k == "slm":
            seq.config_slm_mask(op["q"], dmm_id=op.get("dmm_id", "dmm_0"))
        elif k == "add":
            pulse = Pulse(_wf(op["amp"], op["dur"]), _wf(op["det"], op["dur"]), op["phase"],
                          post_phase_shift=op.get("post", 0.0))
            seq.add(pulse, op["ch"], protocol=op.get("protocol", "min-delay"))
        elif k == "dmm":
            seq.add_dmm_detuning(_wf(op["det"], op["dur"]), op["ch"], protocol=op.get("protocol", "no-delay"))
        elif k == "target":
            seq.target(op["q"], op["ch"])
        elif k == "delay":
            seq.delay(op["dur"], op["ch"])
        elif k == "align":
            seq.align(*op["chs"])
        elif k == "phase_shift":
            seq.phase_shift(op["phi"], *op["q"], basis=op["basis"])
        else:
            raise InfraError(f"unknown op {k}")
    return seq, reg, device


# ----------------------------------------------------------------------------------------------
# independent reference renderer
# ----------------------------------------------------------------------------------------------
@dataclasses.dataclass
class Contribution:
    ch: str
    basis: str
    cls: str            # 'G' global drive channel, 'L' local channel, 'D' DMM
    ti: int
    tf: int
    amp: np.ndarray
    det: np.ndarray
    phase: float
    weights: list       # per atom (register order): 1/0 for drive channels, detuning-map weight for DMM


@dataclasses.dataclass
class Rendered:
    ids: list
    coords: list        # 3-vectors (z = 0 in 2D), register order
    T: int              # sequence duration
    xy: bool
    field: list | None
    contribs: list
    mask: list          # atom indices under the SLM mask (XY only; in Ising the mask is a DMM pulse)
    mask_end: int
    used_bases: list
    eigenbasis: list
    c6: float | None
    c3: float | None
    level: int

    @property
    def n(self):
        return len(self.ids)

    @property
    def d(self):
        return len(self.eigenbasis)


def _c6_table():
    p = common.REPO / "pulser-core/pulser/devices/interaction_coefficients/C6_coeffs.json"
    return {int(k): float(v) for k, v in json.loads(p.read_text()).items()}


def render(seq) -> Rendered:
    """Per-channel pulse contributions read from the scheduler's slots."""
    from pulser.channels.dmm import DMM
    from pulser.pulse import Pulse

    reg = seq.register
    ids = list(reg.qubit_ids)
    coords = []
    for q in ids:
        c = [float(x) for x in np.asarray(reg.qubits[q].as_array() if hasattr(reg.qubits[q], "as_array")
                                          else reg.qubits[q], dtype=float)]
        coords.append(c + [0.0] * (3 - len(c)))
    contribs = []
    T = 0
    xy = False
    first_global = None     # (ti, tf) of the earliest-starting first pulse of a global drive channel
    for name, sch in seq._schedule.items():
        ch = sch.channel_obj
        is_dmm = isinstance(ch, DMM)
        cls = "D" if is_dmm else ("G" if ch.addressing == "Global" else "L")
        if ch.basis == "XY":
            xy = True
        if is_dmm:
            dm = sch.detuning_map
            traps = np.asarray(dm.trap_coordinates, dtype=float)
            tw = list(dm.weights)
            weights = []
            for c in coords:
                w = 0.0
                for tr, wt in zip(traps, tw):
                    trc = list(tr) + [0.0] * (3 - len(tr))
                    if all(abs(a - b) <= 1e-6 for a, b in zip(trc, c)):
                        w += float(wt)
                weights.append(w)
        seen_first = False
        for slot in sch.slots:
            if slot.ti >= 0:
                T = max(T, slot.tf)
            if not isinstance(slot.type, Pulse):
                continue
            p = slot.type
            amp = np.asarray(p.amplitude.samples.as_array(), dtype=float)
            det = np.asarray(p.detuning.samples.as_array(), dtype=float)
            if not is_dmm:
                weights = [1.0 if (cls == "G" or q in slot.targets) else 0.0 for q in ids]
            contribs.append(Contribution(name, ch.basis, cls, slot.ti, slot.tf, amp, det, float(p.phase),
                                         list(weights)))
            if cls == "G" and not seen_first:
                # a constant zero-amplitude, constant-detuning "pulse" is a detuned delay, not a pulse
                detuned_delay = bool(np.all(amp == 0.0) and np.all(det == det[0]))
                if not detuned_delay:
                    seen_first = True
                    if first_global is None or slot.ti < first_global[0]:
                        first_global = (slot.ti, slot.tf)
    mask, mask_end = [], 0
    if xy and seq._slm_mask_targets and first_global is not None:
        mask = sorted(ids.index(q) for q in seq._slm_mask_targets)
        mask_end = first_global[1]
    used = []
    for b in BASES:
        if any(c.basis == b and (np.any(c.amp != 0) or np.any(c.det != 0)) for c in contribs):
            used.append(b)
    if not used:
        states = set(EIGENSTATES["XY" if xy else "ground-rydberg"])
    else:
        states = set().union(*(EIGENSTATES[b] for b in used))
    eigenbasis = [s for s in STATES_RANK if s in states]
    level = int(seq.device.rydberg_level)
    field = [float(x) for x in seq.magnetic_field] if xy else None
    return Rendered(ids, coords, T, xy, field, contribs, mask, mask_end, used, eigenbasis,
                    _c6_table()[level], (float(seq.device.interaction_coeff_xy) if xy else None), level)


def atom_values(info: Rendered, t: int):
    """{(atom, basis): (D, delta)} with D = sum_c Omega_c/2 e^{-i phi_c} and delta = sum_c w_c delta_c —
    the values programmed for the atom at time t (coherent sum when several channels drive one transition)."""
    out = {}
    for c in info.contribs:
        if not (c.ti <= t < c.tf):
            continue
        k = t - c.ti
        for i, w in enumerate(c.weights):
            if w == 0.0:
                continue
            if info.xy and i in info.mask and t < info.mask_end:
                continue
            D, dl = out.get((i, c.basis), (0j, 0.0))
            if c.cls == "D":
                dl += w * c.det[k]
            else:
                D += 0.5 * c.amp[k] * complex(math.cos(c.phase), -math.sin(c.phase))
                dl += c.det[k]
            out[(i, c.basis)] = (D, dl)
    return out


def couplings(info: Rendered, t: int, slm_off_by_one: bool = False):
    """{(i, j): U_ij} for i < j: C6/R^6 (Ising, if r in the basis) or C3 (1 - 3 cos^2)/R^3 (XY, unmasked pairs)."""
    out = {}
    if info.n < 2:
        return out
    if not info.xy and "r" not in info.eigenbasis:
        return out
    masked_now = info.xy and info.mask and (t < info.mask_end or (slm_off_by_one and t == info.mask_end))
    for i, j in itertools.combinations(range(info.n), 2):
        dv = [a - b for a, b in zip(info.coords[i], info.coords[j])]
        R = math.sqrt(sum(x * x for x in dv))
        if info.xy:
            if masked_now and (i in info.mask or j in info.mask):
                continue
            bn = math.sqrt(sum(x * x for x in info.field))
            cos = sum(a * b for a, b in zip(dv, info.field)) / (R * bn)
            out[(i, j)] = info.c3 * (1 - 3 * cos * cos) / R ** 3
        else:
            out[(i, j)] = info.c6 / R ** 6
    return out


def doc_hamiltonian(info: Rendered, t: int, slm_off_by_one: bool = False) -> np.ndarray:
    """The documented formula, entry-wise over configurations (monitor; no model, no Kronecker product)."""
    n, d, eb = info.n, info.d, info.eigenbasis
    vals = atom_values(info, t)
    U = couplings(info, t, slm_off_by_one)
    confs = list(itertools.product(range(d), repeat=n))     # register order, first atom most significant
    index = {c: k for k, c in enumerate(confs)}
    H = np.zeros((d ** n, d ** n), dtype=complex)
    for (i, basis), (D, dl) in vals.items():
        a, b = AB[basis]
        if a not in eb or b not in eb:
            if D != 0 or dl != 0:
                raise InfraError("reference renderer: driven transition outside the eigenbasis")
            continue
        ia, ib = eb.index(a), eb.index(b)
        for c in confs:
            if c[i] == ib:
                k = index[c]
                H[k, k] += -dl
                c2 = c[:i] + (ia,) + c[i + 1:]
                H[index[c2], k] += D              # |a><b|
                H[k, index[c2]] += np.conj(D)     # |b><a|
    for (i, j), u in U.items():
        if info.xy:
            iu, idn = eb.index("u"), eb.index("d")
            for c in confs:
                if c[i] == iu and c[j] == idn:
                    c2 = list(c)
                    c2[i], c2[j] = idn, iu
                    k, k2 = index[c], index[tuple(c2)]
                    H[k, k2] += u
                    H[k2, k] += u
        else:
            ir = eb.index("r")
            for c in confs:
                if c[i] == ir and c[j] == ir:
                    H[index[c], index[c]] += u
    return H


# ----------------------------------------------------------------------------------------------
# generator
# ----------------------------------------------------------------------------------------------
PHASES = [0.0, 0.0, 0.0, math.pi / 2, math.pi, 1.0, -0.7, 2.5, 5.5, 3 * math.pi / 2]
AMPS = [0.0, 0.5, 1.0, 2.0, 3.25, 6.0, 9.5]
DETS = [0.0, 0.0, -1.0, 0.75, 2.0, -4.5, 8.0, -12.0]


def _coords(rng, n, dim, dmin, span):
    for _ in range(200):
        pts = [[round(rng.uniform(-span, span), rng.choice([0, 1, 3])) for _ in range(dim)] for _ in range(n)]
        ok = all(math.dist(p, q) >= dmin for p, q in itertools.combinations(pts, 2))
        if ok:
            return pts
    return [[dmin * 1.5 * i] + [0.0] * (dim - 1) for i in range(n)]


def _amp_spec(rng, grid):
    r = rng.random()
    if r < 0.55:
        return ["const", rng.choice(AMPS)]
    if r < 0.8:
        return ["ramp", rng.choice(AMPS[1:]), rng.choice(AMPS)]
    if r < 0.9 and not grid:
        return ["custom", [rng.choice(AMPS[1:]) for _ in range(rng.randrange(2, 6))]]
    return ["const", rng.choice(AMPS[1:])]


def _det_spec(rng):
    r = rng.random()
    if r < 0.6:
        return ["const", rng.choice(DETS)]
    if r < 0.9:
        return ["ramp", rng.choice(DETS), rng.choice(DETS)]
    return ["custom", [rng.choice(DETS) for _ in range(rng.randrange(2, 6))]]


def gen_case(rng: random.Random) -> dict:
    """One small program.  Every random choice comes from `rng`."""
    mode = rng.choices(["gr", "digital", "all", "xy"], [30, 12, 30, 28])[0]
    base = rng.choices(["MockDevice", "Virtual", "DigitalAnalogDevice", "AnalogDevice"], [45, 25, 20, 10])[0]
    if mode == "xy" and base in ("DigitalAnalogDevice", "AnalogDevice"):
        base = rng.choice(["MockDevice", "Virtual"])
    if base == "AnalogDevice" and mode != "gr":
        base = "DigitalAnalogDevice" if mode in ("all", "digital") else "MockDevice"
    physical = base in ("DigitalAnalogDevice", "AnalogDevice")
    n = rng.choices([1, 2, 3], [10, 45, 45])[0]
    labels = rng.choice([["q0", "q1", "q2"], ["a", "b", "c"], [0, 1, 2], ["z", "m", "a"], [7, 3, 5]])[:n]
    rng.shuffle(labels)
    dspec = {"base": base, "rydberg_level": rng.randrange(50, 101)}
    if base == "MockDevice" and rng.random() < 0.3:
        dspec["rydberg_level"] = None            # the stock device (level 70)
    if base in ("MockDevice", "Virtual"):
        dspec["c3"] = rng.choice([3700.0, 1234.5, 8000.0, 512.0])
    # --- register
    if base == "AnalogDevice":
        traps = rng.sample(range(61), n)
        rspec = {"dim": 2, "layout": True, "atoms": [[q, None, tr] for q, tr in zip(labels, traps)]}
    else:
        dim = 2 if physical else rng.choice([2, 3])
        pts = _coords(rng, n, dim, 4.5 if physical else 3.0, 12.0 if physical else 9.0)
        rspec = {"dim": dim, "atoms": [[q, p] for q, p in zip(labels, pts)]}
    # --- channels
    ops = []
    if mode == "xy":
        pool = ["mw_global"]
    elif base == "AnalogDevice":
        pool = ["rydberg_global"]
    elif base == "DigitalAnalogDevice":
        pool = {"gr": ["rydberg_global", "rydberg_local"], "digital": ["raman_local"],
                "all": ["rydberg_global", "raman_local", "rydberg_local"]}[mode]
    else:
        pool = {"gr": ["rydberg_global", "rydberg_local"], "digital": ["raman_global", "raman_local"],
                "all": ["rydberg_global", "raman_local", "rydberg_local", "raman_global"]}[mode]
    reusable = base == "MockDevice" or (base == "Virtual" and rng.random() < 0.6)
    if base == "Virtual":
        dspec["channels"] = ["rydberg_global", "rydberg_local", "raman_global", "raman_local", "mw_global"]
        dspec["reusable"] = reusable
    nch = rng.choices([1, 2, 3], [35, 40, 25])[0]
    chosen = []
    if mode == "all":
        # make sure both bases are addressed (mostly)
        chosen = [rng.choice([c for c in pool if c.startswith("rydberg")]),
                  rng.choice([c for c in pool if c.startswith("raman")])]
        nch = max(nch, 2)
    while len(chosen) < nch:
        c = rng.choice(pool)
        if c in chosen and not reusable:
            if all(p in chosen for p in pool):
                break
            continue
        chosen.append(c)
    rng.shuffle(chosen)
    if mode == "xy" and rng.random() < 0.8:
        b = rng.choice([[0.0, 0.0, 30.0], [10.0, -5.0, 20.0], [1.0, 0.0, 0.0], [3.0, 4.0, 0.0], [-2.0, 7.0, 1.5]])
        ops.append({"k": "field", "b": b})
    chans = []
    for k, cid in enumerate(chosen):
        name = f"c{k}"
        op = {"k": "channel", "name": name, "id": cid}
        if cid.endswith("local"):
            if rng.random() < 0.8:
                op["init"] = rng.choice(labels)
        ops.append(op)
        chans.append((name, cid))
    # --- detuning map / SLM
    dmms = []
    has_dmm_dev = base != "AnalogDevice"
    if mode in ("gr", "all") and has_dmm_dev and rng.random() < 0.4:
        ws = [[q, rng.choice([1.0, 0.5, 0.25, 0.0, 0.8])] for q in labels if rng.random() < 0.8] or [[labels[0], 1.0]]
        ops.append({"k": "detmap", "dmm_id": "dmm_0", "weights": ws})
        dmms.append("dmm_0")
    slm_pending = None
    want_slm = has_dmm_dev and n >= 1 and (
        (mode == "xy" and rng.random() < 0.5) or (mode in ("gr", "all") and rng.random() < 0.2))
    if want_slm:
        if mode != "xy" and dmms and not reusable and base != "Virtual":
            want_slm = False
    if want_slm:
        k = rng.randrange(1, n + 1) if n > 1 else 1
        slm = {"k": "slm", "q": rng.sample(labels, k)}
        if mode != "xy" and dmms:
            slm["dmm_id"] = "dmm_0" if reusable else "dmm_1"
        if rng.random() < 0.6:
            ops.append(slm)
        else:
            slm_pending = slm
    # --- pulses
    grid = physical
    body = []
    nops = rng.randrange(2, 7)
    for _ in range(nops):
        name, cid = rng.choice(chans)
        r = rng.random()
        dur = rng.choice([16, 20, 24, 32]) if grid else rng.randrange(1, 11)
        if r < 0.62:
            amp = _amp_spec(rng, grid)
            det = _det_spec(rng)
            if physical:
                amp = [amp[0]] + [(min(x, 6.0) if not isinstance(x, list) else [min(y, 6.0) for y in x]) for x in amp[1:]]
            op = {"k": "add", "ch": name, "dur": dur, "amp": amp, "det": det, "phase": rng.choice(PHASES),
                  "protocol": rng.choices(["min-delay", "no-delay", "wait-for-all"], [60, 25, 15])[0]}
            if rng.random() < 0.15:
                op["post"] = rng.choice([0.3, -1.2, math.pi])
            body.append(op)
        elif r < 0.72 and cid.endswith("local") and n > 1:
            body.append({"k": "target", "ch": name, "q": rng.choice(labels)})
        elif r < 0.8:
            body.append({"k": "delay", "ch": name, "dur": dur})
        elif r < 0.87 and dmms:
            body.append({"k": "dmm", "ch": dmms[0], "dur": dur,
                         "det": rng.choice([["const", -rng.choice([1.0, 3.5, 10.0])], ["ramp", -8.0, -0.5],
                                            ["ramp", 0.0, -6.0]]),
                         "protocol": rng.choice(["no-delay", "min-delay"])})
        elif r < 0.93 and len(chans) > 1:
            body.append({"k": "align", "chs": [c for c, _ in chans]})
        elif r < 0.97 and mode != "xy":
            basis = "digital" if cid.startswith("raman") else "ground-rydberg"
            body.append({"k": "phase_shift", "phi": rng.choice([0.4, -1.0, math.pi / 2]),
                         "q": rng.sample(labels, rng.randrange(1, n + 1)), "basis": basis})
        else:
            body.append({"k": "delay", "ch": name, "dur": dur})
    if slm_pending is not None:
        body.insert(rng.randrange(0, len(body) + 1), slm_pending)
    ops += body
    return {"device": dspec, "reg": rspec, "mode": mode, "ops": ops}


def build_padded(case):
    """Build the sequence; drop ops the real API rejects (recorded) and make it at least 4 ns long."""
    from pulser import Sequence  # noqa: F401

    ops = list(case["ops"])
    rejected = []
    while True:
        try:
            seq, reg, device = build({**case, "ops": ops})
            break
        except InfraError:
            raise
        except Exception as e:  # noqa: BLE001 - an op the API refuses: remove the first offender
            bad = _first_failing(case, ops)
            if bad is None:
                raise InfraError(f"cannot build case: {e!r}")
            rejected.append((ops[bad]["k"], type(e).__name__))
            ops = ops[:bad] + ops[bad + 1:]
    return seq, reg, device, ops, rejected


def _first_failing(case, ops):
    for k in range(1, len(ops) + 1):
        try:
            build({**case, "ops": ops[:k]})
        except InfraError:
            raise
        except Exception:  # noqa: BLE001
            return k - 1
    return None
