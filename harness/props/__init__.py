"""Per-property check modules.  `load('C02')` returns an object with
`check(tier, seed) -> exit code` and `replay(path) -> exit code`."""
import importlib

SEQ_FAMILY = {"C01", "C02", "C03", "C07", "C09", "C10", "C13", "C15"}


def load(prop: str):
    if prop in SEQ_FAMILY:
        from props import seqfamily

        return seqfamily.SeqProperty(prop)
    return importlib.import_module(f"props.{prop}")
