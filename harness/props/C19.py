"""C19 — layouts number traps canonically; registers, maps and layouts agree.

Lean side : lean/PulserModel/Layout.lean, lean/Proofs/Layout.lean, lean/Properties/C19.lean,
            driver `pm_layout` (lean/Driver/LayoutMain.lean).
Real side : pulser.register.{_coordinates,traps,register_layout,mappable_reg,weight_maps,
            base_register,special_layouts} of /repo.

A *case* is one coordinate set plus optional sections (permutation, representation variant,
a different set, define_register, a register constructed directly with layout=/trap_ids=,
look-ups, mappable register, detuning maps) and an optional *history*: the caller edits the
array/list it passed in, or edits in place the arrays the accessors handed out, before the
sections run — a layout / weight map must keep describing the coordinates it was given.  Every case is
run on the model and on the real objects (correspondence) and the property is re-stated
directly over the real objects (monitor).  Coordinates go to the model as integers in
micro-units: `mu(x) = np.round(x, 6) * 1e6`; the rounding is monitored.
"""
from __future__ import annotations

import collections
import copy
import json
import random
from fractions import Fraction
from pathlib import Path

import numpy as np

import common
from common import Driver, InfraError, Timer, match_known, write_evidence, write_replay

PROP = "C19"
LEAN_TARGETS = ["PulserModel.Layout", "Proofs.Layout", "Properties.C19", "pm_layout"]
N_CASES = {"quick": 1500, "thorough": 30000}

TRUSTED_BASE = [
    "Lean 4.33 kernel; axioms allowed: propext, Classical.choice, Quot.sound (audited per theorem)",
    "statements in lean/Properties/C19.lean say what the property says",
    "hand-written model lean/PulserModel/Layout.lean corresponds to /repo (checked by differential runs "
    "on generated coordinate sets / selections / weights, not proved)",
    "coordinates enter the model as np.round(x, 6)*1e6 integers computed by the harness with numpy "
    "(monitored: |round(x)-x| <= 0.5000001e-6, real sorted coords are exactly those rounded values)",
    "harness/props/C19.py (adapters, error mapping, canonicalisation), lean/Driver/{Wire,LayoutMain}.lean parser",
    "float dtype/-0.0 representation and sha256 are outside the model: covered only by the correspondence "
    "on ==/static_hash and by the monitor",
]

UNCOVERED = [
    "special_layouts (Square/Rectangular/Triangular lattice registers) are monitor-only: qubits must sit on traps",
    "float rounding np.round(x, 6) itself is an oracle (monitored, not modelled)",
    "weight look-up of a position exactly one micro-unit away from a trap (the float boundary of np.isclose) "
    "is skipped (counted as float_ambiguous)",
]


# ---------------------------------------------------------------------------
# numbers
# ---------------------------------------------------------------------------
def rnd(x) -> float:
    return float(np.round(np.float64(x), 6))


def mu(x) -> int:
    """micro-units of the rounded value"""
    return int(round(rnd(x) * 1e6))


def mu_coords(cs) -> list[list[int]]:
    return [[mu(v) for v in c] for c in cs]


def wire_coords(cs_mu) -> str:
    return "[" + ";".join(",".join(str(v) for v in c) for c in cs_mu) + "]"


def wire_list(xs, f=str) -> str:
    return "[" + ",".join(f(x) for x in xs) + "]"


def parse_coords(s: str) -> list[list[int]]:
    inner = s[1:-1]
    if not inner:
        return []
    return [[int(v) for v in part.split(",")] if part else [] for part in inner.split(";")]


def parse_list(s: str, f=str) -> list:
    inner = s[1:-1]
    return [f(v) for v in inner.split(",")] if inner else []


def parse_reply(r: str):
    """-> ('err', kind) | ('ok', {key: raw} | raw)"""
    if r.startswith("err "):
        return ("err", r[4:].strip())
    if r == "bad request" or not r.startswith("ok"):
        raise InfraError(f"driver: {r!r}")
    body = r[3:].strip()
    if "=" not in body:
        return ("ok", body)
    return ("ok", dict(tok.split("=", 1) for tok in body.split(" ")))


ERR_MAP = [
    ("must be an array or list of coordinates", "shape"),
    ("need at least one array", "shape"),
    ("Each coordinate must be of size 2 or 3", "dim"),
    ("must be unique", "notUnique"),
    ("Every 'trap_id' must be a unique integer", "dupTrapId"),
    ("All 'trap_ids' must correspond", "badTrapId"),
    ("The trap ids of detuning weights have to be integers", "badTrapId"),
    ("'qubit_ids' must be a sequence of unique IDs", "dupQubitId"),
    ("'qubit_ids' must have the same size", "qubitCount"),
    ("Cannot create a Register with an empty qubit", "emptyRegister"),
    ("is not a part of the RegisterLayout", "notInLayout"),
    ("number of required qubits is greater", "tooManyQubits"),
    ("All qubits must be labeled with pre-declared", "undeclared"),
    ("The qubit ids linked to detuning weights have to be defined", "undeclared"),
    ("should contain the first", "notPrefix"),
    ("Number of traps and weights don't match", "weightCount"),
    ("All weights must be between 0 and 1", "weightRange"),
    ("don't match this register's coordinates", "layoutMismatch"),
    ("The amount of 'trap_ids' must be equal to the number of atoms", "layoutMismatch"),
    ("The RegisterLayout dimensionality is not the same", "layoutMismatch"),
]


def classify(e: Exception) -> str:
    msg = str(e)
    for key, kind in ERR_MAP:
        if key in msg:
            return kind
    return f"other:{type(e).__name__}:{msg[:80]}"


def real_call(f):
    try:
        return ("ok", f())
    except Exception as e:  # noqa: BLE001
        return ("err", classify(e))


class Fail:
    def __init__(self, clause: str, msg: str, **key):
        self.clause = clause
        self.msg = msg
        self.key = dict(clause=clause, **key)

    def __repr__(self):
        return f"Fail({self.key}: {self.msg})"


class Result:
    def __init__(self):
        self.fails: list[Fail] = []
        self.diverge: list[tuple[str, str]] = []   # (clause, detail)
        self.evals = 0
        self.ambiguous = 0
        self.nontrivial = False
        self.branches = collections.Counter()
        self.errs = collections.Counter()


# ---------------------------------------------------------------------------
# running one case
# ---------------------------------------------------------------------------
def is_rect(coords) -> bool:
    try:
        return len(coords) > 0 and all(len(c) == len(coords[0]) for c in coords)
    except TypeError:
        return False


def raw_distinct(coords) -> bool:
    return len({tuple(float(v) for v in c) for c in coords}) == len(coords)


def all_int(coords) -> bool:
    return all(isinstance(v, int) for c in coords for v in c)


def signs(layout) -> list:
    return np.signbit(np.asarray(layout.coords, dtype=float)).tolist()


def lex_sorted(cs_mu) -> bool:
    return all(tuple(cs_mu[i]) <= tuple(cs_mu[i + 1]) for i in range(len(cs_mu) - 1))


def enc_ids(ids, n):
    """negative ids are 'not the ID of a trap': encoded as distinct out-of-range naturals"""
    return [i if i >= 0 else n + 1000 + abs(i) for i in ids]


def crowded_mu(sorted_mu, t) -> bool:
    """another trap within one micro-unit of trap `t` (inside the look-up precision)"""
    return sum(1 for u in sorted_mu if all(abs(a - b) <= 1 for a, b in zip(u, t))) > 1


def frac(x) -> Fraction:
    return Fraction(float(x))


def rpos(v) -> Fraction:
    """wire form of a caller-given register coordinate in micro-units: the integer when the float is
    itself a rounded value (the very float a trap there has), else the exact value (never an integer)"""
    v = float(v)
    return Fraction(mu(v)) if v == rnd(v) else Fraction(v) * 10**6


def edit_in_place(a, op: str) -> bool:
    """what a caller might do to an array it was handed (`pos -= centre`, …)"""
    if not isinstance(a, np.ndarray) or a.size == 0:
        return False
    try:
        if op == "shift":
            a += 7.25
        elif op == "zero":
            a[...] = 0
        else:
            a *= 3
        return True
    except (ValueError, TypeError):     # read-only or integer array
        return False


def handed_out(obj, name):
    v = getattr(obj, name)
    return list(v.values()) if isinstance(v, dict) else [v]


def run_case(drv: Driver, case: dict) -> Result:
    from pulser.register.register_layout import RegisterLayout
    from pulser.register.mappable_reg import MappableRegister
    from pulser.register.weight_maps import DetuningMap

    res = Result()
    coords = case["coords"]
    rect = is_rect(coords)
    cmu = mu_coords(coords)
    distinct_raw = raw_distinct(coords) if rect else True
    collapsed = rect and distinct_raw and len({tuple(c) for c in cmu}) != len(cmu)
    kc = dict(collapsed=bool(collapsed))

    def fail(clause, msg, **key):
        res.fails.append(Fail(clause, msg, **{**kc, **key}))

    def ask(line):
        res.evals += 1
        return parse_reply(drv.ask(line))

    def cmp_status(clause, real, model):
        """compare ok/err + error class; returns True when both ok"""
        if real[0] == "err":
            res.errs[real[1]] += 1
        if real[0] != model[0] or (real[0] == "err" and real[1] != model[1]):
            res.diverge.append((clause, f"real={real[0]}:{real[1] if real[0]=='err' else ''} model={model[0]}:"
                                        f"{model[1] if model[0]=='err' else ''}"))
            return False
        return real[0] == "ok"

    # rounding oracle monitor
    if rect:
        for c in coords:
            for v in c:
                r = rnd(v)
                if abs(r - float(v)) > 0.5000001e-6 or abs(r * 1e6 - mu(v)) > 1e-3:
                    raise InfraError(f"rounding oracle off for {v!r}")

    # ---- layout construction -------------------------------------------
    # the container the caller passes (and may edit afterwards): nested list copy or numpy array
    hist = case.get("history") or {}
    inp = copy.deepcopy(coords)
    if hist.get("input") == "ndarray" and rect and len(coords[0]) in (2, 3):
        inp = np.array(coords, dtype=float)
    real = real_call(lambda: RegisterLayout(inp))
    if hist.get("edit_input") and real[0] == "ok":
        # the caller goes on using its own array / list; the layout must not follow
        if isinstance(inp, np.ndarray):
            inp += 11.5
        else:
            for row in inp:
                row[0] = row[0] + 11.5
        res.branches["history-input-" + ("ndarray" if isinstance(inp, np.ndarray) else "list")] += 1
    model = ask(f"layout {wire_coords(cmu)}")
    dims_ok = rect and len(coords[0]) in (2, 3)
    # traps are identified by their rounded coordinates: those must be pairwise different
    expected_ok = bool(dims_ok and distinct_raw and not collapsed)
    if collapsed:
        res.branches["collapsed-rejected" if real[0] == "err" else "collapsed-accepted"] += 1
    if (real[0] == "ok") != expected_ok:
        fail("layout-build", f"RegisterLayout({coords}) -> {real[0]} {real[1] if real[0]=='err' else ''}")
    if not cmp_status("layout-build", real, model):
        return res
    L = real[1]
    md = model[1]
    # ---- history: edit in place whatever the accessors hand out, one accessor at a time ----
    exp_sorted = [[rnd(v) for v in c] for c in sorted(coords, key=lambda c: tuple(mu(v) for v in c))]

    def layout_consistent(obj, want):
        try:
            td_ = obj.traps_dict
            return (list(td_.keys()) == list(range(len(want)))
                    and all([float(v) for v in td_[i]] == want[i] for i in range(len(want)))
                    and obj.coords.astype(float).tolist() == want and obj.sorted_coords.astype(float).tolist() == want
                    and obj.number_of_traps == len(want))
        except Exception:  # noqa: BLE001
            return False

    if hist.get("edit_input") and not collapsed and not layout_consistent(L, exp_sorted):
        fail("aliasing", f"the layout follows edits of the caller's {type(inp).__name__} made after construction: "
                         f"coords {L.coords.tolist()} for {coords}", via="input")
        return res
    if hist.get("edit_returned") and not collapsed:
        op = hist["edit_returned"]
        for rounds in range(2):         # cold caches, then warm
            for name in ("traps_dict", "coords", "sorted_coords"):
                if any([edit_in_place(a, op) for a in handed_out(L, name)]) and not layout_consistent(L, exp_sorted):
                    fail("aliasing", f"after editing in place the arrays returned by layout.{name} the layout "
                                     f"changed: traps_dict={ {k: v.tolist() for k, v in L.traps_dict.items()} } "
                                     f"coords={L.coords.tolist()} for {coords}", via=name)
                    return res
        res.branches["history-returned-" + op] += 1
    # Expectations are recomputed here from the given coordinates (numpy rounding to 1e-6, Python's stable
    # sort on (x, y, z)); nothing below takes the layout's own word for ids, order or coordinates.
    n = len(coords)
    dim_exp = len(coords[0])
    order_exp = sorted(range(n), key=lambda i: (tuple(cmu[i]), i))
    sorted_mu = [cmu[i] for i in order_exp]
    td_exp = {k: [rnd(v) + 0.0 for v in coords[i]] for k, i in enumerate(order_exp)}
    real_sorted_mu = mu_coords(L.coords.tolist())
    order_real = [int(i) for i in L._calc_sorting_order()]
    res.branches["dim%d" % dim_exp] += 1
    res.branches["collapsed" if collapsed else "distinct"] += 1
    # correspondence: numbering
    if real_sorted_mu != parse_coords(md["sorted"]) or int(md["dim"]) != L.dimensionality:
        res.diverge.append(("ids", f"sorted coords real={real_sorted_mu} model={md['sorted']}"))
    if order_real != parse_list(md["order"], int):
        res.diverge.append(("ids", f"sorting order real={order_real} model={md['order']}"))
    # monitor: canonical numbering
    td = L.traps_dict
    if list(td.keys()) != list(range(n)) or L.number_of_traps != n or L.dimensionality != dim_exp:
        fail("ids", f"trap ids are {list(td.keys())}, number_of_traps={L.number_of_traps}, dimensionality="
                    f"{L.dimensionality} for {n} coordinates of size {dim_exp}")
    if real_sorted_mu != sorted_mu:
        fail("ids", f"sorted coords {real_sorted_mu} are not the given coordinates rounded and in ascending "
                    f"(x, y, z) order {sorted_mu}")
    if order_real != order_exp and not collapsed:
        fail("ids", f"sorting order {order_real}, expected {order_exp}")
    for i in range(n):
        if i not in td or [float(v) for v in td[i]] != td_exp[i] or [float(v) for v in L.coords[i]] != td_exp[i]:
            fail("ids", f"trap {i} is {td.get(i)} / {L.coords[i]}, not the rounded input coordinate {td_exp[i]}")
            break
    if len({tuple(c) for c in sorted_mu}) != n:
        fail("rounded-coords-distinct", f"{n} traps on {len({tuple(c) for c in sorted_mu})} rounded coordinates: "
                                        f"{coords}")

    # ---- order independence -------------------------------------------------
    def eq_all(A, B):
        return dict(eq=bool(A == B), eq_rev=bool(B == A), hash=A.static_hash() == B.static_hash(),
                    pyhash=hash(A) == hash(B), coords=bool(np.array_equal(A.coords, B.coords)))

    perm = case.get("perm")
    if perm is not None:
        c2 = [coords[i] for i in perm]
        L2 = RegisterLayout(c2)
        e = eq_all(L, L2)
        m = ask(f"eq {wire_coords(cmu)} {wire_coords(mu_coords(c2))}")
        if m != ("ok", "1"):
            res.diverge.append(("eq-perm", f"model eq on permutation = {m}"))
        if not all(e.values()):
            fail("eq-perm", f"permuted layout differs: {e}")
        if m[0] == "ok" and (m[1] == "1") != e["eq"]:
            res.diverge.append(("eq-perm", f"real=={e['eq']} model={m[1]}"))
        res.branches["perm"] += 1
    var = case.get("variant")
    if var is not None and rect:
        c2 = var["coords"]
        if mu_coords(c2) == cmu and raw_distinct(c2):
            L2 = RegisterLayout(c2)
            e = eq_all(L, L2)
            m = ask(f"eq {wire_coords(cmu)} {wire_coords(mu_coords(c2))}")
            # representation-only differences are invisible to everything but the bytes
            vals_equal = bool(np.array_equal(np.asarray(L.coords, dtype=float), np.asarray(L2.coords, dtype=float)))
            if not vals_equal:
                fail("ids", "same rounded coordinates but different sorted coords")
            if not (e["eq"] and e["eq_rev"] and e["hash"] and e["pyhash"]):
                if L.coords.dtype != L2.coords.dtype:
                    cause = "dtype"
                elif signs(L) != signs(L2):
                    cause = "neg-zero"
                else:
                    cause = "other"
                fail("eq-representation", f"same coordinates after rounding but ==/hash differ ({cause}): "
                                          f"{coords} vs {c2}: {e}", cause=cause)
            if m[0] == "ok" and (m[1] == "1") != e["eq"]:
                res.diverge.append(("eq-representation", f"real=={e['eq']} model={m[1]}"))
            res.branches["variant-" + var.get("kind", "?")] += 1
    other = case.get("other")
    if other is not None:
        ro = real_call(lambda: RegisterLayout(other))
        if ro[0] == "ok":
            L3 = ro[1]
            e = eq_all(L, L3)
            same = sorted(map(tuple, mu_coords(other))) == sorted(map(tuple, cmu))
            m = ask(f"eq {wire_coords(cmu)} {wire_coords(mu_coords(other))}")
            if not same and (e["eq"] or e["eq_rev"] or e["hash"]):
                fail("eq-sound", f"different coordinate sets compare equal: {coords} vs {other}")
            if m[0] == "ok" and (m[1] == "1") != e["eq"] and not same:
                res.diverge.append(("eq-sound", f"real=={e['eq']} model={m[1]}"))
            res.branches["other"] += 1

    # ---- look-up of the given (unrounded) coordinates ---------------------
    if case.get("lookup_raw"):
        idxs = case["lookup_raw"]
        q = [coords[j] for j in idxs]
        real = real_call(lambda: L.get_traps_from_coordinates(*q))
        model = ask(f"lookup {wire_coords(cmu)} {wire_coords(mu_coords(q))}")
        if cmp_status("lookup", real, model):
            got = [int(i) for i in real[1]]
            if got != parse_list(model[1], int):
                res.diverge.append(("lookup", f"real={got} model={model[1]}"))
            want = [order_exp.index(j) for j in idxs]
            if got != want:
                fail("lookup-inverse", f"given coordinates {idxs} look up to {got}, traps are {want}")
        elif real[0] == "err":
            fail("lookup-inverse", f"coordinates of the layout are not found: {real[1]}")
        res.branches["lookup-raw"] += 1
    if case.get("lookup_foreign") is not None:
        q = case["lookup_foreign"]
        real = real_call(lambda: L.get_traps_from_coordinates(*q))
        model = ask(f"lookup {wire_coords(cmu)} {wire_coords(mu_coords(q))}")
        cmp_status("lookup", real, model)
        present = all(tuple(c) in {tuple(t) for t in sorted_mu} for c in mu_coords(q))
        if (real[0] == "ok") != present:
            fail("lookup-foreign", f"look-up of {q}: {real[0]}, present={present}")
        res.branches["lookup-foreign"] += 1

    # ---- define_register ---------------------------------------------------
    reg_default = None
    dr = case.get("defreg")
    if dr is not None:
        ids, qids = dr["ids"], dr.get("qids")
        real = real_call(lambda: L.define_register(*ids, qubit_ids=qids))
        model = ask(f"defreg {wire_coords(cmu)} {wire_list(enc_ids(ids, n))} "
                    f"{'-' if qids is None else wire_list(qids)}")
        exp_ok = (len(set(ids)) == len(ids) and all(0 <= i < n for i in ids) and len(ids) > 0
                  and (not qids or (len(set(qids)) == len(qids) and len(qids) == len(ids))))
        if (real[0] == "ok") != exp_ok:
            fail("define-register-accept", f"define_register({ids}, qubit_ids={qids}) -> {real[0]} "
                                           f"{real[1] if real[0]=='err' else ''}; expected ok={exp_ok}")
        if cmp_status("define-register", real, model):
            reg = real[1]
            res.nontrivial = res.nontrivial or n >= 2
            mm = model[1]
            rq = reg.qubits
            got_ids = [str(q) for q in rq.keys()]
            got_pos = mu_coords([np.asarray(p.as_array()).tolist() for p in rq.values()])
            got_traps = [int(t) for t in reg._layout_info.trap_ids]
            if (got_ids != parse_list(mm["ids"]) or got_pos != parse_coords(mm["pos"])
                    or got_traps != parse_list(mm["traps"], int)):
                res.diverge.append(("define-register", f"real=({got_ids},{got_pos},{got_traps}) model={mm}"))
            want_ids = list(qids) if qids else [f"q{i}" for i in range(len(ids))]
            if got_ids != want_ids:
                fail("define-register-places", f"qubit ids {got_ids} != {want_ids}")
            for k, (q, p) in enumerate(rq.items()):
                if np.asarray(p.as_array(), dtype=float).tolist() != td_exp[ids[k]]:
                    fail("define-register-places", f"qubit {q} at {p} is not on trap {ids[k]} {td_exp[ids[k]]}")
                    break
            if got_traps != list(ids) or reg.layout is None or not (reg.layout == L):
                fail("define-register-places", "register does not remember its layout / trap ids")
            # look-up inverse
            back = real_call(lambda: L.get_traps_from_coordinates(
                *[np.asarray(p.as_array()) for p in rq.values()]))
            mb = ask(f"lookup {wire_coords(cmu)} {wire_coords([sorted_mu[i] for i in ids])}")
            if cmp_status("lookup", back, mb):
                gb = [int(i) for i in back[1]]
                if gb != parse_list(mb[1], int):
                    res.diverge.append(("lookup", f"real={gb} model={mb[1]}"))
                if gb != list(ids):
                    fail("lookup-inverse", f"register defined on traps {ids}; its coordinates look up to {gb}")
            elif back[0] == "err":
                fail("lookup-inverse", f"coordinates of a register of the layout not found: {back[1]}")
            if not qids:
                reg_default = (reg, list(ids))
        res.branches["defreg-" + ("ok" if real[0] == "ok" else "err")] += 1

    # ---- register constructed directly with layout= / trap_ids= -------------------
    dd = case.get("direct")
    if dd is not None:
        import pulser

        ids, qids, offs = dd["ids"], dd["qids"], dd["offsets"]
        true_td = td_exp
        pdim = dd.get("dim", dim_exp)
        pos = []
        for k, off in enumerate(offs):
            base = true_td.get(ids[k] if k < len(ids) else -1, [0.0] * dim_exp)
            base = (list(base) + [0.0] * pdim)[:pdim]
            pos.append([float(b) + float(o) for b, o in zip(base, (list(off) + [0.0] * pdim)[:pdim])])
        cls = pulser.Register3D if pdim == 3 else pulser.Register

        def build_direct():
            if dd.get("via") == "from_coordinates":
                return cls.from_coordinates(pos, center=False, labels=list(qids), layout=L, trap_ids=tuple(ids))
            return cls(dict(zip(qids, [np.array(p) for p in pos])), layout=L, trap_ids=tuple(ids))

        real = real_call(build_direct)
        model = ask(f"dreg {wire_coords(cmu)} {pdim} {wire_list(qids)} "
                    f"[{';'.join(','.join(common.rat(rpos(v)) for v in p) for p in pos)}] "
                    f"{wire_list(enc_ids(ids, n))}")
        in_range = all(0 <= i < n for i in ids)
        on_traps = (len(ids) == len(pos) and in_range
                    and all(p == true_td[i] for p, i in zip(pos, ids)))
        exp_ok = (len(pos) > 0 and pdim == dim_exp and len(set(ids)) == len(ids)
                  and len(ids) == len(pos) and in_range and on_traps)
        worst = max([abs(float(o)) for off in offs for o in off] + [0.0])
        if (real[0] == "ok") != exp_ok:
            cause = ("negative-trap-id" if any(i < 0 for i in ids) else
                     "off-trap" if (in_range and len(ids) == len(pos) and not on_traps) else "other")
            fail("direct-register-accept",
                 f"{cls.__name__}(positions {pos}, layout=L, trap_ids={ids}) -> {real[0]} "
                 f"{real[1] if real[0]=='err' else ''}; expected ok={exp_ok} (traps {true_td}, largest offset "
                 f"{worst:g})", cause=cause)
        if real[0] == "err" and real[1].startswith("other:") and not exp_ok:
            fail("direct-register-accept", f"trap_ids={ids} on {n} traps raises {real[1]}", cause="error-class")
        if cmp_status("direct-register", real, model):
            reg = real[1]
            mm = model[1]
            rq = reg.qubits
            got_ids = [str(q) for q in rq.keys()]
            got_pos = mu_coords([np.asarray(p.as_array()).tolist() for p in rq.values()])
            got_traps = [int(t) for t in reg._layout_info.trap_ids]
            if (got_ids != parse_list(mm["ids"]) or got_pos != parse_coords(mm["pos"])
                    or got_traps != parse_list(mm["traps"], int)):
                res.diverge.append(("direct-register", f"real=({got_ids},{got_pos},{got_traps}) model={mm}"))
        if real[0] == "ok":
            reg = real[1]
            rq = reg.qubits
            tids = [int(t) for t in reg._layout_info.trap_ids]
            placed = (len(tids) == len(rq) and all(0 <= t < n for t in tids) and all(
                np.asarray(p.as_array(), dtype=float).tolist() == true_td[t] for p, t in zip(rq.values(), tids)))
            if not placed:
                fail("define-register-places", f"register carries trap ids {tids} but its qubits "
                                               f"{[np.asarray(p.as_array()).tolist() for p in rq.values()]} are not "
                                               f"exactly on those traps", via="direct")
            back = real_call(lambda: L.get_traps_from_coordinates(*[np.asarray(p.as_array()) for p in rq.values()]))
            if back[0] != "ok" or [int(i) for i in back[1]] != tids:
                fail("lookup-inverse", f"directly constructed register carries trap ids {tids}; its coordinates look "
                                       f"up to {back[1]}", via="direct")
            if len(tids) >= 2 and all(0 <= t < n for t in tids):
                wsel = {t: [0.3, 0.6, 0.1, 0.9, 0.45][k % 5] for k, t in enumerate(tids)}
                dmr = real_call(lambda: L.define_detuning_map(wsel))
                if dmr[0] == "ok":
                    qw = dmr[1].get_qubit_weight_map(rq)
                    if any(abs(qw[q] - wsel[t]) > 1e-12 for q, t in zip(rq.keys(), tids)) and not any(
                            crowded_mu(sorted_mu, sorted_mu[t]) for t in tids):
                        fail("weight-lookup", f"register on traps {tids}: detuning map {wsel} gives {qw}",
                             cause="trap-id", via="direct")
        res.branches["direct-" + ("ok" if real[0] == "ok" else "err")] += 1

    # ---- mappable register ---------------------------------------------------
    mp = case.get("mappable")
    if mp is not None:
        declared, pairs = mp["declared"], [tuple(p) for p in mp["qubits"]]
        qd = dict(pairs)

        def build():
            return MappableRegister(L, *declared).build_register(qd)

        real = real_call(build)
        tids = [t for _, t in pairs]
        model = ask(f"mappable {wire_coords(cmu)} {wire_list(declared)} "
                    f"{wire_list([f'{q}:{e}' for (q, _), e in zip(pairs, enc_ids(tids, n))])}")
        k = len(pairs)
        exp_ok = (len(declared) <= n and set(qd) <= set(declared) and set(qd) == set(declared[:k]) and k > 0
                  and len(set(tids)) == k and all(0 <= t < n for t in tids))
        if (real[0] == "ok") != exp_ok:
            fail("mappable-accept", f"build_register({qd}) on {declared} -> {real[0]} "
                                    f"{real[1] if real[0]=='err' else ''}; expected ok={exp_ok}")
        if cmp_status("mappable", real, model):
            reg = real[1]
            mm = model[1]
            got_ids = [str(q) for q in reg.qubits.keys()]
            got_pos = mu_coords([np.asarray(p.as_array()).tolist() for p in reg.qubits.values()])
            if got_ids != parse_list(mm["ids"]) or got_pos != parse_coords(mm["pos"]):
                res.diverge.append(("mappable", f"real=({got_ids},{got_pos}) model={mm}"))
            if got_ids != list(declared[:k]):
                fail("mappable-order", f"qubits {got_ids}, declared order {declared[:k]}")
            for q, p in reg.qubits.items():
                if np.asarray(p.as_array(), dtype=float).tolist() != td_exp[qd[q]]:
                    fail("mappable-order", f"qubit {q} mapped to trap {qd[q]} sits at {p}")
                    break
        res.branches["mappable-" + ("ok" if real[0] == "ok" else "err")] += 1

    # ---- weight maps -----------------------------------------------------------
    def crowded(t):
        """another trap within one micro-unit of trap `t` (inside the look-up precision)"""
        return sum(1 for u in sorted_mu if all(abs(a - b) <= 1 for a, b in zip(u, t))) > 1

    def rtol_cause(given_mu, p, other):
        """'rtol' when a trap of the map that is not at `p` lies within the tolerance np.isclose has with its
        default rtol=1e-5 (the repaired defect F19)"""
        near = [t for t in given_mu if t != p and all(
            100000 * abs(a - b) <= 100000 + abs(b) for a, b in zip(t, p))]
        return "rtol" if near else other

    def wm_consistent(dm, exp_mu, exp_w):
        order = sorted(range(len(exp_mu)), key=lambda i: tuple(exp_mu[i]))
        try:
            return (mu_coords(dm.trap_coordinates.tolist()) == exp_mu
                    and [float(w) for w in dm.weights] == [float(w) for w in exp_w]
                    and mu_coords(dm.sorted_coords.tolist()) == [exp_mu[i] for i in order]
                    and [float(w) for w in dm.sorted_weights] == [float(exp_w[i]) for i in order])
        except Exception:  # noqa: BLE001
            return False

    def attack_wm(dm, exp_mu, exp_w) -> bool:
        """history: edit in place the arrays a weight map hands out; it must keep describing its inputs"""
        op = hist.get("edit_returned")
        if not op or collapsed:
            return True
        for rounds in range(2):
            for name in ("trap_coordinates", "sorted_coords", "sorted_weights", "traps_dict"):
                if any([edit_in_place(a, op) for a in handed_out(dm, name)]) and not wm_consistent(dm, exp_mu, exp_w):
                    fail("aliasing", f"after editing in place the array returned by {type(dm).__name__}.{name} the "
                                     f"map changed: trap_coordinates={dm.trap_coordinates.tolist()} "
                                     f"sorted_coords={dm.sorted_coords.tolist()} (declared {exp_mu})", via=name)
                    return False
        return True

    def check_weight_map(dm, clause, given_mu, given_w, positions, qids=None, real_qubits=None):
        """correspondence + monitor of sorted_weights / get_qubit_weight_map on `positions`"""
        pos_mu = mu_coords(positions)
        m = ask(f"wmap {wire_coords(given_mu)} {wire_list(given_w, common.rat)} {wire_coords(pos_mu)}")
        if m[0] != "ok":
            res.diverge.append((clause, f"model rejects an accepted weight map: {m}"))
            return None
        mm = m[1]
        sw_real = [frac(w) for w in dm.sorted_weights]
        sc_real = mu_coords(dm.sorted_coords.tolist())
        if sc_real != parse_coords(mm["sc"]) or sw_real != parse_list(mm["sw"], Fraction):
            res.diverge.append(("sorted-weights", f"real=({sc_real},{sw_real}) model=({mm['sc']},{mm['sw']})"))
        # monitor: sorted weights are the declared weight of each trap id
        decl = collections.defaultdict(list)
        for c, w in zip(given_mu, given_w):
            decl[tuple(c)].append(frac(w))
        if lex_sorted(sc_real) is False or any(
                sw_real[i] not in decl[tuple(sc_real[i])] for i in range(len(sc_real))):
            fail("sorted-weights", f"sorted_weights {sw_real} do not carry the declared weights {dict(decl)}")
        names = qids if qids is not None else [f"p{i}" for i in range(len(positions))]
        # queried with the register's own qubit dict when there is one (the documented use); the expected
        # weights below are computed from `positions`, the harness's own idea of where the qubits are
        qmap = dm.get_qubit_weight_map(real_qubits if real_qubits is not None else dict(
            zip(names, [np.asarray(p, dtype=float) for p in positions])))
        if real_qubits is not None and [str(q) for q in qmap.keys()] != list(names):
            fail("weight-lookup", f"weight map keyed by {list(qmap.keys())}, the register's qubits are {names}",
                 cause="qubit-ids")
            return None
        got = [qmap[q] for q in names]
        qw_model = parse_list(mm["qw"], Fraction)
        for i, p in enumerate(pos_mu):
            near = [j for j, t in enumerate(given_mu) if all(abs(a - b) <= 1 for a, b in zip(t, p))]
            exact = [j for j, t in enumerate(given_mu) if t == p]
            # float boundary of isclose(rtol=0, atol=1e-6): a trap exactly one micro-unit away
            amb = len(near) > len(exact)
            if amb:
                res.ambiguous += 1
                # within the look-up precision either way — but the weight of ONE trap position (or none),
                # never of two different positions added up
                totals = collections.defaultdict(Fraction)
                for j in near:
                    totals[tuple(given_mu[j])] += frac(given_w[j])
                allowed = [0.0] + [float(v) for v in totals.values()]
                if min(abs(got[i] - a) for a in allowed) > 1e-12:
                    fail("weight-lookup", f"qubit at {positions[i]} gets weight {got[i]}: the weights of several trap "
                                          f"positions one micro-unit away added up (traps {given_mu}, weights {given_w})",
                         cause="double-count")
                continue
            if abs(Fraction(got[i]) - qw_model[i]) > Fraction(1, 10**12):
                res.diverge.append(("weight-lookup", f"position {positions[i]} real={got[i]} model={qw_model[i]}"))
            if len(near) > len(exact):
                continue        # a trap one micro-unit away: within the look-up precision either way
            want = float(sum((frac(given_w[j]) for j in exact), Fraction(0)))
            if abs(got[i] - want) > 1e-12:
                contributors = [j for j, t in enumerate(given_mu) if t != p and all(
                    100000 * abs(a - b) <= 100000 + abs(b) for a, b in zip(t, p))]
                cause = "rtol" if contributors else "other"
                fail("weight-lookup", f"qubit at {positions[i]} gets weight {got[i]}, the trap at its position "
                                      f"has {want} (traps {given_mu}, weights {given_w})", cause=cause)
        return got

    ld = case.get("ldet")
    if ld is not None:
        pairs = [tuple(p) for p in ld["weights"]]
        wd = dict(pairs)
        real = real_call(lambda: L.define_detuning_map(wd))
        model = ask(f"ldet {wire_coords(cmu)} "
                    f"{wire_list([f'{e}:{common.rat(w)}' for (_, w), e in zip(pairs, enc_ids([i for i, _ in pairs], n))])}")
        k = len(pairs)
        sel_mu = [sorted_mu[i] for i, _ in pairs if 0 <= i < n]
        if not all(0 <= i < n for i, _ in pairs):
            exp = "badTrapId"
        elif k == 0:
            exp = "shape"
        elif len({tuple(c) for c in sel_mu}) != k:
            exp = "notUnique"
        elif not all(0 <= w <= 1 for _, w in pairs):
            exp = "weightRange"
        else:
            exp = "ok"
        got_cls = "ok" if real[0] == "ok" else real[1]
        if got_cls != exp:
            fail("detmap-define", f"define_detuning_map({wd}) -> {got_cls}; expected {exp}", n_selected=k)
        if cmp_status("detmap-define", real, model):
            dm = real[1]
            mm = model[1]
            if not attack_wm(dm, [sorted_mu[i] for i, _ in pairs], [w for _, w in pairs]):
                return res
            given_mu = mu_coords(dm.trap_coordinates.tolist())
            given_w = [float(w) for w in dm.weights]
            if given_mu != parse_coords(mm["pos"]) or [frac(w) for w in given_w] != parse_list(mm["w"], Fraction):
                res.diverge.append(("detmap-define", f"real=({given_mu},{given_w}) model={mm}"))
            if given_mu != [sorted_mu[i] for i, _ in pairs] or given_w != [float(w) for _, w in pairs]:
                fail("detmap-define", "detuning map does not carry the chosen traps / weights")
            # from here on the declared traps / weights, not what the map says about itself
            given_mu, given_w = [sorted_mu[i] for i, _ in pairs], [float(w) for _, w in pairs]
            reg_ids = ld.get("reg_ids") or []
            rr = real_call(lambda: L.define_register(*reg_ids)) if reg_ids else ("err", "none")
            if rr[0] == "ok":
                reg = rr[1]
                names = [f"q{i}" for i in range(len(reg_ids))]
                positions = [td_exp[i] for i in reg_ids]
                got = check_weight_map(dm, "weight-lookup", given_mu, given_w, positions, names, reg.qubits)
                if got is not None and not collapsed:
                    for q, tid, g in zip(names, reg_ids, got):
                        want = float(wd.get(tid, 0.0))
                        if abs(g - want) > 1e-12 and not crowded(sorted_mu[tid]):
                            fail("weight-lookup", f"qubit {q} on trap {tid} gets {g}, trap weight is {want}",
                                 cause=rtol_cause(given_mu, sorted_mu[tid], "trap-id"))
            if k >= 2:
                dm2 = L.define_detuning_map(dict(reversed(pairs)))
                if not (dm == dm2 and dm.static_hash() == dm2.static_hash()
                        and np.array_equal(dm.sorted_weights, dm2.sorted_weights)):
                    fail("weight-perm", f"detuning map depends on the order of the dict: {pairs}")
                m = ask(f"weq {wire_coords(given_mu)} {wire_list(given_w, common.rat)} "
                        f"{wire_coords(given_mu[::-1])} {wire_list(given_w[::-1], common.rat)}")
                if m != ("ok", "1"):
                    res.diverge.append(("weight-perm", f"model weq on reversed map = {m}"))
        res.branches["ldet-" + ("ok" if real[0] == "ok" else "err")] += 1

    wm = case.get("wmap")
    if wm is not None and rect:
        ws, positions = wm["weights"], wm["positions"]
        inp_c = np.array(coords, dtype=float) if hist.get("input") == "ndarray" else copy.deepcopy(coords)
        inp_w = list(ws)
        real = real_call(lambda: DetuningMap(inp_c, inp_w))
        model = ask(f"wmap {wire_coords(cmu)} {wire_list(ws, common.rat)} []")
        if real[0] == "ok" and hist.get("edit_input") and not collapsed:
            if isinstance(inp_c, np.ndarray):
                inp_c += 11.5
            else:
                for row in inp_c:
                    row[0] = row[0] + 11.5
            inp_w[0] = 1.0 - inp_w[0] if 0 <= inp_w[0] <= 1 else 0.5
            if not wm_consistent(real[1], cmu, ws):
                fail("aliasing", f"the weight map follows edits of the caller's {type(inp_c).__name__} made after "
                                 f"construction: sorted_coords {real[1].sorted_coords.tolist()} for {coords}",
                     via="input")
                return res
        if cmp_status("weight-map-build", real, model):
            dm = real[1]
            if not attack_wm(dm, cmu, ws):
                return res
            if all(float(w).is_integer() for w in ws) and not collapsed:
                # the same weights given as ints
                dmi = DetuningMap(coords, [int(w) for w in ws])
                if not (dm == dmi and dmi == dm and dm.static_hash() == dmi.static_hash()):
                    fail("eq-representation", f"weight maps with the same traps and weights compare unequal when the "
                                              f"weights are given as ints: {coords} {ws}", cause="weights-dtype")
                res.branches["variant-weights-as-int"] += 1
            got = check_weight_map(dm, "weight-lookup", cmu, [float(w) for w in ws], positions)
            p2 = wm.get("perm")
            if p2 is not None and got is not None:
                dm2 = DetuningMap([coords[i] for i in p2], [ws[i] for i in p2])
                names = [f"p{i}" for i in range(len(positions))]
                q2 = dm2.get_qubit_weight_map(dict(zip(names, [np.asarray(p, dtype=float) for p in positions])))
                same_w = all(abs(q2[nm] - g) <= 1e-12 for nm, g in zip(names, got))
                if not same_w:
                    fail("weight-perm", "qubit weights depend on the order of the traps")
                if not collapsed and not (dm == dm2 and dm.static_hash() == dm2.static_hash()
                                          and np.array_equal(dm.sorted_weights, dm2.sorted_weights)):
                    fail("weight-perm", "weight map ==/hash/sorted_weights depend on the order of the traps")
                m = ask(f"weq {wire_coords(cmu)} {wire_list(ws, common.rat)} "
                        f"{wire_coords([cmu[i] for i in p2])} {wire_list([ws[i] for i in p2], common.rat)}")
                if not collapsed and m != ("ok", "1"):
                    res.diverge.append(("weight-perm", f"model weq on permuted map = {m}"))
            ch = wm.get("changed")
            if ch is not None:
                ws3 = list(ws)
                ws3[ch[0]] = ch[1]
                r3 = real_call(lambda: DetuningMap(coords, ws3))
                if r3[0] == "ok" and float(ws3[ch[0]]) != float(ws[ch[0]]):
                    if r3[1] == dm or r3[1].static_hash() == dm.static_hash():
                        fail("eq-sound", "weight maps with different weights compare equal")
                    m = ask(f"weq {wire_coords(cmu)} {wire_list(ws, common.rat)} "
                            f"{wire_coords(cmu)} {wire_list(ws3, common.rat)}")
                    if m != ("ok", "0"):
                        res.diverge.append(("eq-sound", f"model weq on changed weights = {m}"))
        res.branches["wmap-" + ("ok" if real[0] == "ok" else "err")] += 1

    rd = case.get("rdet")
    if rd is not None and reg_default is not None:
        reg, ids = reg_default
        pairs = [tuple(p) for p in rd["weights"]]
        wd = dict(pairs)
        real = real_call(lambda: reg.define_detuning_map(wd))
        model = ask(f"rdet {wire_coords(cmu)} {wire_list(enc_ids(ids, n))} - "
                    f"{wire_list([f'{q}:{common.rat(w)}' for q, w in pairs])}")
        names = [f"q{i}" for i in range(len(ids))]
        k = len(pairs)
        sel = [sorted_mu[ids[names.index(q)]] for q, _ in pairs if q in names]
        exp_ok = (k > 0 and set(wd) <= set(names) and all(0 <= w <= 1 for _, w in pairs)
                  and len({tuple(c) for c in sel}) == k)
        if (real[0] == "ok") != exp_ok:
            fail("detmap-define", f"Register.define_detuning_map({wd}) -> {real[0]} "
                                  f"{real[1] if real[0]=='err' else ''}; expected ok={exp_ok}",
                 n_selected=k, via="register")
        if cmp_status("detmap-define", real, model):
            dm = real[1]
            mm = model[1]
            if not attack_wm(dm, [sorted_mu[ids[names.index(q)]] for q, _ in pairs], [w for _, w in pairs]):
                return res
            given_mu = mu_coords(dm.trap_coordinates.tolist())
            given_w = [float(w) for w in dm.weights]
            if given_mu != parse_coords(mm["pos"]) or [frac(w) for w in given_w] != parse_list(mm["w"], Fraction):
                res.diverge.append(("detmap-define", f"real=({given_mu},{given_w}) model={mm}"))
            exp_mu = [sorted_mu[ids[names.index(q)]] for q, _ in pairs]
            if given_mu != exp_mu or given_w != [float(w) for _, w in pairs]:
                fail("detmap-define", "register detuning map does not carry the chosen qubits' positions / weights",
                     via="register")
            given_mu, given_w = exp_mu, [float(w) for _, w in pairs]
            positions = [td_exp[i] for i in ids]
            got = check_weight_map(dm, "weight-lookup", given_mu, given_w, positions, names, reg.qubits)
            if got is not None and not collapsed:
                for q, g in zip(names, got):
                    if abs(g - float(wd.get(q, 0.0))) > 1e-12 and not crowded(sorted_mu[ids[names.index(q)]]):
                        fail("weight-lookup", f"qubit {q} gets {g}, declared {wd.get(q, 0.0)}",
                             cause=rtol_cause(given_mu, sorted_mu[ids[names.index(q)]], "qubit-id"))
        res.branches["rdet-" + ("ok" if real[0] == "ok" else "err")] += 1
    return res


# ---------------------------------------------------------------------------
# special layouts: monitor only
# ---------------------------------------------------------------------------
def run_special(spec: dict) -> list[Fail]:
    from pulser.register.special_layouts import (
        RectangularLatticeLayout, SquareLatticeLayout, TriangularLatticeLayout,
    )

    fails: list[Fail] = []
    kind = spec["kind"]
    try:
        if kind == "square":
            L = SquareLatticeLayout(spec["rows"], spec["cols"], spec["spacing"])
            reg = L.rectangular_register(spec["r"], spec["c"])
            want_n = spec["r"] * spec["c"]
        elif kind == "rect":
            L = RectangularLatticeLayout(spec["rows"], spec["cols"], spec["spacing"], spec["spacing2"])
            reg = L.rectangular_register(spec["r"], spec["c"])
            want_n = spec["r"] * spec["c"]
        elif kind == "tri-hex":
            L = TriangularLatticeLayout(spec["n"], spec["spacing"])
            reg = L.hexagonal_register(spec["k"])
            want_n = spec["k"]
        else:
            L = TriangularLatticeLayout(spec["n"], spec["spacing"])
            reg = L.rectangular_register(spec["r"], spec["c"])
            want_n = spec["r"] * spec["c"]
    except Exception as e:  # noqa: BLE001
        return [Fail("special-layout", f"{spec}: {type(e).__name__}: {e}", kind=kind, collapsed=False)]
    # expectations: the lattice generator (leaf numerics, `pulser.register._patterns`) times the spacing gives
    # the raw points; ids / coordinates by the harness's own rounding and sort, not by the layout's word
    from pulser.register import _patterns as patterns

    def scaled(pts, sx, sy):
        pts = np.array(pts, dtype=float)
        pts[:, 0] = pts[:, 0] * sx
        pts[:, 1] = pts[:, 1] * sy
        return pts.tolist()

    sp = float(spec["spacing"])
    if kind == "square":
        raw_l, raw_r = scaled(patterns.square_rect(spec["rows"], spec["cols"]), sp, sp), \
            scaled(patterns.square_rect(spec["r"], spec["c"]), sp, sp)
    elif kind == "rect":
        sp2 = float(spec["spacing2"])
        raw_l, raw_r = scaled(patterns.square_rect(spec["rows"], spec["cols"]), sp, sp2), \
            scaled(patterns.square_rect(spec["r"], spec["c"]), sp, sp2)
    elif kind == "tri-hex":
        raw_l, raw_r = (patterns.triangular_hex(spec["n"]) * sp).tolist(), \
            (patterns.triangular_hex(spec["k"]) * sp).tolist()
    else:
        raw_l, raw_r = (patterns.triangular_hex(spec["n"]) * sp).tolist(), \
            (patterns.triangular_rect(spec["r"], spec["c"]) * sp).tolist()
    lmu = mu_coords(raw_l)
    order = sorted(range(len(lmu)), key=lambda i: (tuple(lmu[i]), i))
    exp_mu = [lmu[i] for i in order]
    exp_pos = [[rnd(v) + 0.0 for v in raw_l[i]] for i in order]
    try:
        want_ids = [exp_mu.index(c) for c in mu_coords(raw_r)]
    except ValueError:
        want_ids = None
    tids = [int(t) for t in reg._layout_info.trap_ids]
    ok = (want_ids is not None and len(want_ids) == want_n and tids == want_ids
          and [str(q) for q in reg.qubits.keys()] == [f"q{i}" for i in range(want_n)] and reg.layout == L
          and len(set(map(tuple, exp_mu))) == len(exp_mu) == L.number_of_traps
          and [[float(v) for v in c] for c in L.coords.tolist()] == exp_pos)
    if ok:
        for p_, t in zip(reg.qubits.values(), want_ids):
            ok = ok and np.asarray(p_.as_array(), dtype=float).tolist() == exp_pos[t]
        ok = ok and [int(i) for i in L.get_traps_from_coordinates(
            *[np.asarray(p_.as_array()) for p_ in reg.qubits.values()])] == want_ids
    if not ok:
        fails.append(Fail("special-layout", f"{spec}: register is not on the traps of its layout (trap ids {tids}, "
                                            f"expected {want_ids})", kind=kind, collapsed=False))
    return fails


# ---------------------------------------------------------------------------
# generator
# ---------------------------------------------------------------------------
NAMES = ["a", "b", "c", "d", "e", "f", "g", "h", "k", "m", "n", "p", "r", "s", "t", "u", "v", "w", "x", "y"]


def gen_coords(rng: random.Random):
    """-> (style, coords)"""
    style = rng.choices(
        ["grid-int", "grid-float", "decimal", "fine", "tie-x", "near-tie", "neg-zero", "lattice", "malformed"],
        weights=[14, 10, 16, 14, 12, 8, 10, 8, 8])[0]
    dim = rng.choice([2, 2, 3])
    n = rng.choice([1, 2, 2, 3, 3, 4, 5, 6, 8, 12])
    if style in ("grid-int", "grid-float"):
        sp = rng.choice([1, 4, 5])
        pts = set()
        while len(pts) < n:
            pts.add(tuple(sp * rng.randrange(-4, 5) for _ in range(dim)))
        pts = [list(p) for p in pts]
        rng.shuffle(pts)
        if style == "grid-float":
            pts = [[float(v) for v in p] for p in pts]
        return style, pts
    if style == "decimal":
        k = rng.choice([0, 1, 3, 6])
        pts = {}
        while len(pts) < n:
            p = tuple(round(rng.uniform(-50, 50), k) for _ in range(dim))
            pts[tuple(mu(v) for v in p)] = list(p)
        return style, list(pts.values())
    if style == "fine":
        # sub-precision digits around rounding boundaries
        deltas = [0.0, 4e-7, -4e-7, 6e-7, -6e-7, 1e-9, -1e-9, 4.9e-7, 5.1e-7, -4.9e-7, -5.1e-7, 2.5e-7]
        pts = {}
        tries = 0
        while len(pts) < n and tries < 200:
            tries += 1
            p = tuple(rng.choice([0.0, 1.0, -1.0, 2.5, 5.0, rng.randrange(-20, 20) / 4]) + rng.choice(deltas)
                      for _ in range(dim))
            key = tuple(mu(v) for v in p)
            if key not in pts:
                pts[key] = list(p)
        return style, list(pts.values())
    if style == "tie-x":
        xs = [rng.choice([0.0, 1.5, -3.0]) for _ in range(n)]
        pts = {}
        tries = 0
        while len(pts) < n and tries < 200:
            tries += 1
            p = [rng.choice(xs)] + [float(rng.randrange(-3, 4)) for _ in range(dim - 1)]
            if dim == 3 and rng.random() < 0.5:
                p[1] = 1.0
            pts[tuple(p)] = p
        out = list(pts.values())
        rng.shuffle(out)
        return style, out
    if style == "near-tie":
        base = [[float(rng.randrange(-5, 6)) for _ in range(dim)]]
        eps = rng.choice([1e-8, 4e-7, 6e-7, 1e-6, 1.4e-6, 4e-7])
        twin = list(base[0])
        twin[rng.randrange(dim)] += eps
        pts = {tuple(base[0]): base[0], tuple(twin): twin}
        while len(pts) < max(n, 2):
            p = [float(rng.randrange(-9, 10)) for _ in range(dim)]
            pts.setdefault(tuple(p), p)
        out = list(pts.values())
        rng.shuffle(out)
        return style, out
    if style == "neg-zero":
        pts = {}
        tries = 0
        while len(pts) < n and tries < 200:
            tries += 1
            p = [rng.choice([0.0, -0.0, -1e-9, 1e-9, -4e-7, 3.0, -3.0, 1.0]) for _ in range(dim)]
            key = tuple(mu(v) for v in p)
            if key not in pts:
                pts[key] = p
        out = list(pts.values())
        rng.shuffle(out)
        return style, out
    if style == "lattice":
        from pulser.register import _patterns as patterns

        sp = rng.choice([4.0, 5.0, 6.13, 7.77, 3.3333333])
        arr = patterns.triangular_hex(rng.choice([3, 7, 10, 19])) * sp if rng.random() < 0.6 \
            else patterns.square_rect(rng.choice([2, 3]), rng.choice([2, 3, 4])) * sp
        pts = [[float(v) for v in row] for row in arr]
        rng.shuffle(pts)
        return style, pts
    # malformed
    kind = rng.choice(["empty", "dim1", "dim4", "ragged", "dup", "dup-negzero"])
    if kind == "empty":
        return style, []
    if kind == "dim1":
        return style, [[float(i)] for i in range(n)]
    if kind == "dim4":
        return style, [[float(i), 0.0, 1.0, 2.0] for i in range(n)]
    if kind == "ragged":
        return style, [[0.0, 1.0], [2.0, 3.0, 4.0]]
    if kind == "dup":
        p = [float(rng.randrange(-3, 4)) for _ in range(dim)]
        return style, [p, [v + 1 for v in p], list(p)]
    return style, [[0.0, 1.0], [-0.0, 1.0]]


def gen_case(rng: random.Random) -> dict:
    style, coords = gen_coords(rng)
    case: dict = {"style": style, "coords": coords}
    if not is_rect(coords) or len(coords[0]) not in (2, 3) or not raw_distinct(coords):
        return case
    n = len(coords)
    dim = len(coords[0])
    cmu = mu_coords(coords)
    collapsed = len({tuple(c) for c in cmu}) != n
    perm = list(range(n))
    rng.shuffle(perm)
    case["perm"] = perm
    # representation variant with the same rounded coordinates
    r = rng.random()
    if r < 0.35:
        if all_int(coords):
            case["variant"] = {"kind": "as-float", "coords": [[float(v) for v in c] for c in coords]}
        elif all(float(v).is_integer() for c in coords for v in c) and rng.random() < 0.7:
            case["variant"] = {"kind": "as-int", "coords": [[int(v) for v in c] for c in coords]}
        else:
            case["variant"] = {"kind": "rounded", "coords": [[rnd(v) for v in c] for c in coords]}
    elif r < 0.7:
        j = rng.choice([1e-9, -1e-9, 3e-7, -3e-7, 1e-12, -1e-12])
        c2 = [[float(v) + (j if rng.random() < 0.5 else 0.0) for v in c] for c in coords]
        if mu_coords(c2) == cmu and raw_distinct(c2):
            case["variant"] = {"kind": "jitter", "coords": c2}
    # a different set
    if rng.random() < 0.5:
        o = copy.deepcopy(coords)
        which = rng.random()
        if which < 0.6:
            i, d = rng.randrange(n), rng.randrange(dim)
            o[i][d] = o[i][d] + rng.choice([1e-6, -1e-6, 1, -1, 2e-6])
        elif which < 0.8 and n > 1:
            o.pop(rng.randrange(n))
        elif dim == 2:
            o = [list(c) + [0.0] for c in o]
        else:
            o = [list(c[:2]) for c in o]
        case["other"] = o
    if rng.random() < 0.6:
        k = rng.randrange(1, n + 1)
        case["lookup_raw"] = rng.sample(range(n), k)
    if rng.random() < 0.3:
        case["lookup_foreign"] = [[float(rng.randrange(-60, 60)) + rng.choice([0.0, 0.5, 1e-6]) for _ in range(dim)]
                                  for _ in range(rng.randrange(1, 3))]
        if rng.random() < 0.4:
            case["lookup_foreign"].append(list(coords[rng.randrange(n)]))
    # define_register
    ids = rng.sample(range(n), rng.randrange(1, n + 1))
    r = rng.random()
    if r < 0.08:
        ids = ids + [ids[0]]
    elif r < 0.16:
        ids = ids + [rng.choice([n, n + 3, -1])]
    elif r < 0.2:
        ids = []
    qids = None
    r = rng.random()
    if r < 0.4 and ids:
        qids = rng.sample(NAMES, len(ids))
        r2 = rng.random()
        if r2 < 0.1:
            qids[-1] = qids[0] if len(qids) > 1 else qids[0]
        elif r2 < 0.2:
            qids = qids + ["zz"]
        elif r2 < 0.25:
            qids = []
    case["defreg"] = {"ids": ids, "qids": qids}
    # history: the caller edits its own input / the arrays it was handed
    r = rng.random()
    if r < 0.45:
        case["history"] = {"input": rng.choice(["ndarray", "list"]),
                           "edit_input": rng.random() < 0.5,
                           "edit_returned": rng.choice([None, "shift", "zero", "scale"])}
    # a register constructed directly with layout= / trap_ids=
    if rng.random() < 0.55:
        k = rng.randrange(1, min(n, 4) + 1)
        dids = rng.sample(range(n), k)
        offs = [[0.0] * dim for _ in range(k)]
        r = rng.random()
        if r < 0.6:
            j = rng.randrange(k)
            c = [rnd(v) for v in sorted(coords, key=lambda c: tuple(mu(v) for v in c))[dids[j]]]
            d = max(range(dim), key=lambda a: abs(c[a])) if rng.random() < 0.7 else rng.randrange(dim)
            size = rng.choice([1e-9, 4e-7, 6e-7, 1e-6, 2e-6, 1e-5, 1e-4, 3e-4, 1e-3, 0.5,
                               0.3e-5 * abs(c[d]), 0.9e-5 * abs(c[d]), 2e-5 * abs(c[d])])
            offs[j][d] = rng.choice([1, -1]) * size
        r = rng.random()
        if r < 0.06:
            dids[-1] = rng.choice([n, n + 2, -1, -n])
        elif r < 0.10 and k >= 2:
            dids[1] = dids[0]
        elif r < 0.14:
            dids = dids + [rng.randrange(n)]
        case["direct"] = {"ids": dids, "qids": rng.sample(NAMES, k), "offsets": offs,
                          "dim": dim if rng.random() < 0.94 else 5 - dim,
                          "via": rng.choice(["ctor", "ctor", "from_coordinates"])}
    # mappable
    if rng.random() < 0.6:
        nd = rng.randrange(1, n + 1) if rng.random() < 0.9 else n + 1
        declared = rng.sample(NAMES, nd)
        k = rng.randrange(1, min(nd, n) + 1) if rng.random() < 0.93 else 0
        keys = list(declared[:k])
        r = rng.random()
        if r < 0.1 and nd > k >= 1:
            keys[rng.randrange(k)] = declared[k]           # not a prefix
        elif r < 0.16 and k >= 1:
            keys[rng.randrange(k)] = "zz"                  # undeclared
        rng.shuffle(keys)
        tids = rng.sample(range(n), min(k, n)) + [0] * max(0, k - n)
        r = rng.random()
        if r < 0.07 and k >= 2:
            tids[1] = tids[0]
        elif r < 0.12 and k >= 1:
            tids[0] = n + 1
        case["mappable"] = {"declared": declared, "qubits": [[q, t] for q, t in zip(keys, tids)]}
    # detuning map through the layout
    wchoices = [0.0, 1.0, 0.5, 0.25, 0.1, 0.3, 0.7, 1 / 3]
    if rng.random() < 0.6:
        k = rng.choice([1, 1, 2, 3, n]) if n > 1 else 1
        sel = rng.sample(range(n), min(k, n))
        ws = [[i, rng.choice(wchoices)] for i in sel]
        r = rng.random()
        if r < 0.06:
            ws[0][1] = rng.choice([1.5, -0.1])
        elif r < 0.1:
            ws.append([n + 2, 0.5])
        elif r < 0.13:
            ws = []
        case["ldet"] = {"weights": ws, "reg_ids": rng.sample(range(n), rng.randrange(1, n + 1))}
    # direct weight map + free positions
    if rng.random() < 0.6:
        ws = [rng.choice(wchoices) for _ in range(n)] if rng.random() < 0.8 else \
            [rng.choice([0.0, 1.0]) for _ in range(n)]
        r = rng.random()
        if r < 0.05:
            ws[0] = 1.0000001
        elif r < 0.08:
            ws = ws + [0.5]
        positions = []
        for _ in range(rng.randrange(1, 5)):
            t = [rnd(v) for v in coords[rng.randrange(n)]]
            kind = rng.choice(["on", "on", "far", "adjacent", "rtol", "rtol-out", "random"])
            if kind == "far":
                t = [v + rng.choice([-7.0, 3.0, 11.0]) for v in t]
            elif kind == "adjacent":
                d = rng.randrange(dim)
                t[d] = rnd(t[d] + rng.choice([1e-6, -1e-6]))
            elif kind in ("rtol", "rtol-out"):
                d = rng.randrange(dim)
                tol_mu = 1 + abs(mu(t[d])) / 1e5
                off = max(2, int(tol_mu * (0.6 if kind == "rtol" else 1.7)))
                t[d] = rnd(t[d] + rng.choice([1, -1]) * off * 1e-6)
            elif kind == "random":
                t = [round(rng.uniform(-50, 50), 6) for _ in range(dim)]
            positions.append([float(v) for v in t])
        p2 = list(range(n))
        rng.shuffle(p2)
        wm = {"weights": ws, "positions": positions, "perm": p2 if len(ws) == n else None}
        if len(ws) == n and rng.random() < 0.5:
            wm["changed"] = [rng.randrange(n), rng.choice([0.2, 0.9, 0.0])]
        case["wmap"] = wm
    # detuning map through the register
    if case["defreg"]["qids"] is None and rng.random() < 0.6 and ids:
        k = len(ids)
        sel = rng.sample(range(k), rng.randrange(1, k + 1)) if k else []
        pairs = [[f"q{i}", rng.choice(wchoices)] for i in sel]
        r = rng.random()
        if r < 0.07:
            pairs.append(["zz", 0.5])
        elif r < 0.1:
            pairs = []
        case["rdet"] = {"weights": pairs}
    return case


def gen_special(rng: random.Random) -> dict:
    kind = rng.choice(["square", "rect", "tri-hex", "tri-rect"])
    sp = rng.choice([4.0, 5.0, 6.13, 7.77, 3.3333333, 10 / 3, 4.000001, 5.5])
    if kind in ("square", "rect"):
        rows, cols = rng.randrange(1, 7), rng.randrange(1, 7)
        return dict(kind=kind, rows=rows, cols=cols, spacing=sp, spacing2=rng.choice([4.0, 6.5, 7.123456]),
                    r=rng.randrange(1, rows + 1), c=rng.randrange(1, cols + 1))
    n = rng.randrange(1, 40)
    if kind == "tri-hex":
        return dict(kind=kind, n=n, spacing=sp, k=rng.randrange(1, n + 1))
    r = rng.randrange(1, 5)
    c = rng.randrange(1, 5)
    return dict(kind="tri-rect", n=max(n, 4 * r * c + 10), spacing=sp, r=r, c=c)


# ---------------------------------------------------------------------------
# shrinking
# ---------------------------------------------------------------------------
SECTIONS = ["perm", "variant", "other", "lookup_raw", "lookup_foreign", "defreg", "direct", "mappable", "ldet", "wmap",
            "rdet", "history"]


def _drop_coord(case: dict, j: int) -> dict | None:
    """remove coordinate j; when it carries the highest trap id the id-bearing sections are kept
    (restricted to the remaining ids), otherwise they are dropped"""
    coords = case["coords"]
    if not is_rect(coords) or len(coords) < 2:
        return None
    n = len(coords)
    cmu = mu_coords(coords)
    last = max(range(n), key=lambda i: (tuple(cmu[i]), i))
    keep_ids = (j == last) and len({tuple(c) for c in cmu}) == n
    c = {k: copy.deepcopy(v) for k, v in case.items()
         if k in ("style", "coords", "variant", "history")
         or (keep_ids and k in ("defreg", "direct", "mappable", "ldet", "wmap", "rdet"))}
    c["coords"].pop(j)
    if c.get("variant"):
        c["variant"]["coords"].pop(j)
    c["perm"] = list(reversed(range(n - 1)))
    if keep_ids:
        if c.get("defreg"):
            d = c["defreg"]
            kept = [k for k, i in enumerate(d["ids"]) if i != n - 1]
            if d.get("qids") and len(d["qids"]) == len(d["ids"]):
                d["qids"] = [d["qids"][k] for k in kept]
            d["ids"] = [d["ids"][k] for k in kept]
        if c.get("direct"):
            d = c["direct"]
            kept = [k for k, i in enumerate(d["ids"]) if i != n - 1 and k < len(d["qids"])]
            d["ids"], d["qids"] = [d["ids"][k] for k in kept], [d["qids"][k] for k in kept]
            d["offsets"] = [d["offsets"][k] for k in kept]
            if not kept:
                c.pop("direct")
        if c.get("mappable"):
            c["mappable"]["qubits"] = [p for p in c["mappable"]["qubits"] if p[1] != n - 1]
        if c.get("ldet"):
            c["ldet"]["weights"] = [p for p in c["ldet"]["weights"] if p[0] != n - 1]
            c["ldet"]["reg_ids"] = [i for i in c["ldet"].get("reg_ids") or [] if i != n - 1]
        if c.get("wmap"):
            w = c["wmap"]
            if len(w["weights"]) == n:
                w["weights"].pop(j)
            w["perm"] = None
            w.pop("changed", None)
        if c.get("rdet") and c.get("defreg"):
            k = len(c["defreg"]["ids"])
            c["rdet"]["weights"] = [p for p in c["rdet"]["weights"]
                                    if not (p[0].startswith("q") and p[0][1:].isdigit() and int(p[0][1:]) >= k)]
    return c


def shrink(drv: Driver, case: dict, key: dict) -> dict:
    def bad(c):
        try:
            return any(f.key == key for f in run_case(drv, c).fails)
        except Exception:  # noqa: BLE001
            return False

    cur = case
    progress = True
    while progress:
        progress = False
        for s in SECTIONS:
            if s in cur and cur[s] is not None:
                c = {k: v for k, v in cur.items() if k != s}
                if bad(c):
                    cur, progress = c, True
        for j in range(len(cur.get("coords", [])) - 1, -1, -1):
            c = _drop_coord(cur, j)
            if c is not None and bad(c):
                cur, progress = c, True
                break
    return cur


# ---------------------------------------------------------------------------
# check / replay
# ---------------------------------------------------------------------------
def load_findings() -> list[dict]:
    """known_findings.jsonl (+ an optional extra file for trying out proposed entries)."""
    import os

    out = common.load_known_findings()
    extra = os.environ.get("VERIF_EXTRA_FINDINGS")
    if extra and Path(extra).exists():
        for line in Path(extra).read_text().splitlines():
            line = line.strip()
            if line and not line.startswith("#"):
                out.append(json.loads(line))
    return out


def lean_obligations():
    ok, out = common.lake_build(LEAN_TARGETS)
    if not ok:
        raise InfraError("lake build failed:\n" + out[-3000:])
    thms = common.property_theorems(PROP)
    bad = common.lean_forbidden_tokens([f"Properties.{PROP}"] if "PROP" in globals() else None)
    if bad:
        raise InfraError("forbidden tokens in Lean sources: " + "; ".join(bad[:5]))
    axioms = common.audit_axioms(f"Properties.{PROP}", thms)
    offending = {t: axioms.get(t) for t in thms
                 if axioms.get(t) is None or not set(axioms[t]) <= common.ALLOWED_AXIOMS}
    if offending:
        raise InfraError(f"axiom audit failed: {offending}")
    return thms, axioms, len(thms) - len(offending)


def corpus_cases() -> list[dict]:
    d = common.CORPUS / PROP
    out = []
    if d.exists():
        for f in sorted(d.glob("*.json")):
            item = json.loads(f.read_text())
            item.setdefault("style", "corpus:" + f.stem)
            out.append(item)
    return out


def check(tier: str, seed: int) -> int:
    timer = Timer()
    thms, axioms, discharged = lean_obligations()
    rng = random.Random(f"{PROP}-{seed}")
    drv = Driver("pm_layout")
    findings = load_findings()
    n_cases = N_CASES[tier]
    distinct: set[str] = set()
    nontrivial = 0
    evaluations = 0
    ambiguous = 0
    styles = collections.Counter()
    sizes = collections.Counter()
    branches = collections.Counter()
    errs = collections.Counter()
    known_hits = collections.Counter()
    known_what: dict[str, str] = {}
    violations: list[dict] = []
    unexplained: list[dict] = []
    seen_keys: set[str] = set()
    samples: list[dict] = []

    def handle(case: dict, origin: str):
        nonlocal nontrivial, evaluations, ambiguous
        res = run_case(drv, case)
        evaluations += res.evals
        ambiguous += res.ambiguous
        branches.update(res.branches)
        errs.update(res.errs)
        styles[case.get("style", "?")] += 1
        sizes[len(case["coords"])] += 1
        canon = json.dumps({k: v for k, v in case.items() if k != "style"}, sort_keys=True)
        if canon not in distinct:
            distinct.add(canon)
            if res.nontrivial:
                nontrivial += 1
        if len(samples) < 3 and res.nontrivial and origin == "generated":
            samples.append(case)
        explained = set()
        for f in res.fails:
            kf = match_known(PROP, f.key, findings)
            if kf is not None:
                known_hits[kf["id"]] += 1
                known_what[kf["id"]] = kf["what"]
                explained.add(f.clause)
                continue
            explained.add(f.clause)
            sig = json.dumps(f.key, sort_keys=True)
            if sig in seen_keys:
                continue
            seen_keys.add(sig)
            small = shrink(drv, case, f.key)
            violations.append(dict(property=PROP, kind="monitor", clause=f.clause, key=f.key, message=f.msg,
                                   case=small))
        # a collapsed layout voids every downstream clause of the same case
        if any(f.key.get("collapsed") for f in res.fails):
            explained |= {c for c, _ in res.diverge}
        for clause, detail in res.diverge:
            if clause in explained:
                continue
            unexplained.append(dict(case=case, clause=clause, detail=detail))

    for item in corpus_cases():
        handle(item, "corpus")
    for _ in range(n_cases):
        handle(gen_case(rng), "generated")
        if violations and tier == "quick":
            break
    # special layouts (monitor only)
    n_special = 150 if tier == "quick" else 3000
    special_bad = 0
    for _ in range(n_special):
        spec = gen_special(rng)
        for f in run_special(spec):
            kf = match_known(PROP, f.key, findings)
            if kf is not None:
                known_hits[kf["id"]] += 1
                known_what[kf["id"]] = kf["what"]
                continue
            special_bad += 1
            if special_bad == 1:
                violations.append(dict(property=PROP, kind="monitor", clause=f.clause, key=f.key, message=f.msg,
                                       special=spec))
    # tie broken without a failing input: search more, then report
    if unexplained and not violations:
        extra = 2000 if tier == "quick" else 50000
        before = len(unexplained)
        for _ in range(extra):
            handle(gen_case(rng), "search")
            if violations:
                break
        if not violations:
            u = unexplained[0]
            violations.append(dict(property=PROP, kind="correspondence", clause=u["clause"],
                                   broken=f"model lean/PulserModel/Layout.lean vs /repo diverge on '{u['clause']}': "
                                          f"{u['detail']} ({before} divergent cases)",
                                   theorems=thms, case=u["case"], no_failing_input_found=True))
    drv.close()
    ev = dict(
        property_id=PROP, tier=tier, seed=seed, level="proof",
        coverage=dict(
            obligations=len(thms), discharged=discharged,
            checker_cmd="cd lean && lake build " + " ".join(LEAN_TARGETS)
                        + " && #print axioms per theorem (harness/common.py audit_axioms)",
            trusted_base=TRUSTED_BASE, theorems=thms, axioms=axioms,
            evaluations=evaluations, distinct_nontrivial=nontrivial,
            traces_validated_against_impl=len(distinct),
            rule="cases drawn by harness/props/C19.py gen_case (9 coordinate styles x optional sections, incl. registers "
                 "constructed directly with layout=/trap_ids= at offsets around the precision and inside numpy's "
                 "relative tolerance, and histories in which the caller edits its input or the arrays it was handed "
                 "before every clause is re-checked) + corpus; "
                 "evaluations = model requests answered and compared with the real objects; distinct = distinct "
                 "canonical case JSON; non-trivial = layout with >= 2 traps built and a register successfully "
                 "defined from it on both sides",
            samples=samples,
            style_histogram=dict(styles), size_histogram={str(k): v for k, v in sorted(sizes.items())},
            branch_histogram=dict(branches), error_histogram=dict(errs),
            special_layout_cases=n_special, float_ambiguous=ambiguous,
            known_findings_hit=dict(known_hits), unexplained_divergences=len(unexplained),
            uncovered_clauses=UNCOVERED, repo_fingerprint=common.repo_fingerprint(),
        ),
        assumptions=TRUSTED_BASE, wall_s=timer.s(), violations=len(violations),
    )
    write_evidence(PROP, ev)
    for kid, cnt in sorted(known_hits.items()):
        print(f"KNOWN-FINDING: property={PROP} {kid}: {known_what[kid]} (hit {cnt}x)")
    if violations:
        for v in violations:
            p = write_replay(PROP, v)
            tail = " no-failing-input-found" if v.get("no_failing_input_found") else ""
            print(f"VIOLATION property={PROP} replay={p}{tail}")
            print("  " + str(v.get("message") or v.get("broken"))[:300])
        return 1
    print(f"OK property={PROP} tier={tier} theorems={discharged}/{len(thms)} cases={len(distinct)} "
          f"model-requests={evaluations} wall={timer.s()}s")
    return 0


def replay(path: str) -> int:
    item = json.loads(Path(path).read_text())
    findings = load_findings()
    if "special" in item:
        fails = run_special(item["special"])
        diverge = []
    else:
        ok, out = common.lake_build(LEAN_TARGETS)
        if not ok:
            raise InfraError("lake build failed:\n" + out[-3000:])
        drv = Driver("pm_layout")
        case = item.get("case", item)
        res = run_case(drv, case)
        drv.close()
        fails, diverge = res.fails, res.diverge
        print("case:", json.dumps(case)[:2000])
    bad = False
    for f in fails:
        kf = match_known(PROP, f.key, findings)
        print(("known " + kf["id"] if kf else "FAIL") + f": {f.key}: {f.msg}")
        bad = bad or kf is None
    for clause, detail in diverge:
        print(f"divergence [{clause}]: {detail}")
    if item.get("no_failing_input_found") and diverge:
        bad = True
    if bad:
        print(f"VIOLATION property={PROP} replay={path}")
        return 1
    print("replay: property holds on this case")
    return 0
