"""C04 — sequence serialisation round-trips and is schema-valid.

check(tier, seed):
  1. regenerate lean/PulserModel/Generated/AbstractOps.lean from the live serializer / deserializer
     source, the live Sequence signatures and sequence-schema.json (harness/tables_c04.py);
  2. lake build (table, model, proofs, Properties.C04 with its `decide`s over the table); a failure
     located in a table obligation (or a table that cannot be extracted) is a *broken tie*: the
     round-trip monitor searches for a concrete program that no longer round-trips;
  3. axiom audit + forbidden tokens;
  4. corpus, then ~1000 generated programs (every op kind, optional arguments at default — passed or
     omitted — and non-default, every pulse constructor and waveform kind, variable expressions with
     every operator, mappable / layout / plain registers, EOM, DMM, SLM mask, magnetic field,
     measurement) on AnalogDevice, DigitalAnalogDevice, MockDevice, lattice VirtualDevices and custom
     devices.  MONITOR on the real objects, for the abstract representation AND the legacy JSON:
       * the document validates (inside `to_abstract_repr` and explicitly with
         `validate_abstract_repr`),
       * `decode(encode(seq))` has the same device, register, layout, channels, variables, magnetic
         field, SLM mask, measurement, and — concrete: the same snapshot and sampled arrays (1e-9);
         parametrized / mappable: the same built sequence (or the same error) for 3 assignments,
       * encoding the decoded sequence again gives the same document;
  5. evidence.
"""
from __future__ import annotations

import collections
import copy
import dataclasses
import json
import os
import random
import re
import warnings
from pathlib import Path

import numpy as np

import common
from common import InfraError, Timer, load_known_findings, match_known, write_evidence, write_replay
import paramgen as pg
import tables_c04 as tb
from gen import gen_device

import pulser
from pulser import Sequence
from pulser.json.abstract_repr.validation import validate_abstract_repr

PROP = "C04"
TARGETS = ["PulserModel.Generated.AbstractOps", "PulserModel.Serialize", "Proofs.Serialize", "Properties.C04"]
TIE_THEOREMS = {"defaults_agree", "top_level_agree", "coverage_complete", "expr_ops_agree", "flags_agree"}
COUNTS = {"quick": 1000, "thorough": 8000}     # (thorough about 12 min)
TOL = 1e-9
KNOWN_BROKEN_OPERATORS: list = []   # as in Properties/C04.lean (F-C04-1, rounding, is repaired)

TRUSTED_BASE = [
    "Lean 4.33 kernel; axioms allowed: propext, Classical.choice, Quot.sound (audited per theorem)",
    "statements in lean/Properties/C04.lean say what the property says (key sets / defaults per abstract "
    "operation; round trip of the model's op language up to the canonical form; expression trees)",
    "harness/tables_c04.py: ast / inspect / json translator that writes PulserModel/Generated/AbstractOps.lean",
    "hand-written model lean/PulserModel/Serialize.lean corresponds to serializer.py / deserializer.py: its "
    "structure (hoisted declarations, initial target -> target op, elision) is tied to the source through the "
    "generated table; the behaviour of real round trips is checked on the generated programs by the monitor "
    "(the model is not run in the loop)",
    "harness/paramgen.py (op language, generators, snapshots, differ), harness/realcode.py snapshot",
    "jsonschema + referencing (schema validation), CPython json float round-trip, pulser.sampler.sample",
]
UNCOVERED = [
    "behavioural equivalence of the canonical form with the original call order (declare_channel hoisted "
    "before operations of other channels): no commutation theorem — monitor only "
    "(roundtrip_behaviour_partial covers logs already in canonical order)",
    "schema validity proper (value types, nesting, waveforms, devices, layouts): jsonschema in the harness; the "
    "theorems only speak about key sets and defaults",
    "waveforms, pulses (Pulse / ConstantDetuning / ConstantAmplitude / ArbitraryPhase), detuning maps, devices, "
    "registers inside the document: monitor only (devices/registers/layouts are C17's subject)",
    "legacy JSON encoder / decoder: monitor only",
    "SLM mask in Ising mode (DMM configured implicitly), magnetic field: monitor only",
]


# --------------------------------------------------------------------------------------
# programs
# --------------------------------------------------------------------------------------
class Fail:
    def __init__(self, clause: str, msg: str, key: dict | None = None):
        self.clause, self.msg, self.prop = clause, msg, PROP
        self.key = dict(key or {}, clause=clause)

    def __repr__(self):
        return f"{self.prop}/{self.clause}: {self.msg}"


DEVICE_KINDS = ["analog", "digital_analog", "mock", "mock", "virtual", "virtual", "virtual", "custom"]


def real_device(kind: str):
    from pulser.devices import AnalogDevice, DigitalAnalogDevice, MockDevice

    if kind == "analog":
        return AnalogDevice
    if kind == "digital_analog":
        return DigitalAnalogDevice
    if kind == "mock":
        return MockDevice
    if kind == "custom":
        return dataclasses.replace(DigitalAnalogDevice, name="VerifCustomDevice", max_sequence_duration=200000,
                                   max_atom_num=60)
    return None


def make_ctx(case: dict) -> pg.Ctx:
    dev = real_device(case["device"])
    if dev is None:
        return pg.Ctx(case["spec"], mappable=case["mappable"], extra_ids=case.get("extra_ids", 0),
                      with_layout=case.get("with_layout", False))
    return pg.Ctx(case["spec"], mappable=case["mappable"], extra_ids=case.get("extra_ids", 0), device=dev,
                  with_layout=case.get("with_layout", False))


def gen_program(rng: random.Random, stats: dict) -> dict | None:
    kind = rng.choice(DEVICE_KINDS)
    nq = rng.choice([1, 2, 3, 4])
    dev = real_device(kind)
    if dev is None:
        spec = gen_device(rng, rng.choice(["any", "eom", "dmm", "local", "xy"]))
    else:
        spec = pg.spec_of_device(dev, nq)
    mappable = rng.random() < 0.2
    with_layout = (dev is not None and dev.requires_layout) or rng.random() < 0.3
    case = dict(device=kind, spec=spec, mappable=mappable, extra_ids=rng.choice([0, 0, 1]) if mappable else 0,
                with_layout=with_layout, omit_defaults=rng.random() < 0.5)
    try:
        ctx = make_ctx(case)
    except Exception as e:  # noqa: BLE001  (register refused by the device)
        stats["ctx_errors"][type(e).__name__] += 1
        return None
    profile = rng.choice(["mix", "eom", "target", "dmm", "phase"])
    ops = pg.valid_history_ctx(rng, ctx, rng.randrange(6, 22), profile=profile, exact=rng.random() < 0.5)
    ops = pg.revalidate(ctx, pg.decorate(rng, ctx, ops, stats["decor"]))
    if len(ops) < 2:
        return None
    decl, builds, split = {}, [], len(ops)
    if rng.random() < 0.55:
        pool = pg.VarPool(rng)
        par = pg.Parametrizer(rng, pool, p=rng.choice([0.3, 0.6]), exotic=0.35)
        par.list_of_items = False   # (refused at store time since the repair of F-C08-1)
        par.slices = True
        split = rng.randrange(0, len(ops))
        ops2 = [copy.deepcopy(o) if i < split else par.op(o) for i, o in enumerate(ops)]
        if pool.decl:
            if rng.random() < 0.15:      # a variable that is declared and never used
                pool.fresh(rng.choice(["int", "float"]), rng.choice([1, 3]), [], "phase")
                stats["decor"]["unused_variable"] = stats["decor"].get("unused_variable", 0) + 1
            pool.finish()
            ops = ops2
            for k, v in par.positions.items():
                stats["positions"][k] += v
            for k, v in par.operators.items():
                stats["operators"][k] += v
            base = {n: list(v) for n, v in pool.base.items()}
            assigns = [base] + [pg.sanitize(ops, pg.perturb(rng, pool, ctx, strength=rng.choice([0.3, 1.0])), base,
                                            pool.decl) for _ in range(2)]
            decl = {n: dict(dtype=d["dtype"], size=d["size"], roles=d["roles"],
                            scalar=(d["size"] == 1 and rng.random() < 0.6)) for n, d in pool.decl.items()}
            builds = [dict(assign=a) for a in assigns]
    if not decl and rng.random() < 0.1:
        # a CONCRETE program whose sequence declares a variable it never uses
        decl = {"unused": dict(dtype=rng.choice(["int", "float"]), size=rng.choice([1, 2]), roles=["phase"] * 2,
                               scalar=False)}
        stats["decor"]["unused_variable_concrete"] = stats["decor"].get("unused_variable_concrete", 0) + 1
    if mappable:
        if not builds:
            builds = [dict(assign={}) for _ in range(3)]
        for b in builds:
            k = rng.randrange(ctx.nq, len(ctx.qids) + 1)
            pairs = list(zip(ctx.qids[:k], rng.sample(range(len(ctx.coords)), k)))
            rng.shuffle(pairs)
            b["qubits"] = pairs
    if mappable and decl and builds and not builds[0]["assign"]:
        for b in builds:    # (mappable + only an unused variable: it still needs a value at build time)
            b["assign"] = {n: [0] * d["size"] for n, d in decl.items()}
    case.update(ops=ops, decl=decl, builds=builds, split=split, kw_style=rng.random() < 0.3)
    return case


def build_sequence(ctx: pg.Ctx, case: dict):
    """The sequence of a case (ops that the API refuses are dropped) -> (seq, ops applied)."""
    import props.C08 as c8

    ops = case["ops"]
    pg.KW_STYLE = bool(case.get("kw_style", False))
    try:
        return _build_sequence(ctx, case, ops)
    finally:
        pg.KW_STYLE = False


def _build_sequence(ctx: pg.Ctx, case: dict, ops: list):
    import props.C08 as c8

    for _attempt in range(3):
        seq = ctx.new_template()
        vars_ = c8.declare_vars(seq, case["decl"]) if case["decl"] else {}
        mk = lambda x: pg.to_param(x, vars_)  # noqa: E731
        failed = None
        for i, op in enumerate(ops):
            r = pg.try_op(seq, ctx, op, mk, omit_defaults=case.get("omit_defaults", False))
            if r[0] != "ok":
                failed = i
                break
        if failed is None:
            return seq, ops
        # a refused call (store-time check of a parametrized program) may leave traces: start again
        # without it and without what follows
        ops = ops[:failed]
    return seq, ops


# --------------------------------------------------------------------------------------
# comparison of two sequences
# --------------------------------------------------------------------------------------
def static_view(seq: Sequence) -> dict:
    reg = seq._register
    if seq.is_register_mappable():
        regv = dict(kind="mappable", ids=[str(q) for q in reg.qubit_ids],
                    layout=np.asarray(reg.layout.coords, dtype=float).round(9).tolist(), slug=reg.layout.slug)
    else:
        regv = dict(kind=type(reg).__name__, ids=[str(q) for q in reg.qubit_ids],
                    coords=[np.asarray(reg.qubits[q].as_array() if hasattr(reg.qubits[q], "as_array")
                                       else reg.qubits[q], dtype=float).round(9).tolist() for q in reg.qubit_ids],
                    layout=None if reg.layout is None
                    else np.asarray(reg.layout.coords, dtype=float).round(9).tolist())
    return dict(
        register=regv,
        channels={n: s.channel_id for n, s in seq._schedule.items()},
        declared=sorted(seq.declared_channels),
        variables={n: [v.dtype.__name__, v.size] for n, v in seq._variables.items()},
        parametrized=seq.is_parametrized(), mappable=seq.is_register_mappable(),
        measured=seq.is_measured(), basis=seq.get_measurement_basis() if seq.is_measured() else None,
        mag=None if seq._mag_field is None else [float(x) for x in seq._mag_field],
        in_xy=bool(seq._in_xy),
        slm=sorted(str(q) for q in seq._slm_mask_targets), slm_dmm=seq._slm_mask_dmm,
        n_stored=len(seq._to_build_calls),
    )


def compare(ctx: pg.Ctx, a: Sequence, b: Sequence, case: dict, codec: str, res) -> list[Fail]:
    fails = []
    key = dict(codec=codec)
    try:
        same_dev = (a.device == b.device)
    except Exception as e:  # noqa: BLE001
        same_dev = False
    if not same_dev:
        fails.append(Fail("device", f"{codec}: decoded device differs", key))
    elif a.device is not b.device:
        # ... and field by field, whatever the devices' and channels' own __eq__ say
        dd = pg.diff_tol(pg.canon_obj(a.device), pg.canon_obj(b.device), "", TOL)
        if dd:
            fails.append(Fail("device", f"{codec}: decoded device differs field-wise: {dd}", dict(key, view="fields")))
    va = static_view(a)
    try:
        vb = static_view(b)
    except Exception as e:  # noqa: BLE001  (the decoded sequence cannot even be inspected)
        fails.append(Fail("deserialise-raises", f"{codec}: the decoded sequence is unusable: {type(e).__name__}: "
                          f"{str(e)[:120]}", dict(key, err=type(e).__name__, cause=cause_of(e, case["ops"]))))
        return fails
    if a.is_parametrized():
        # what a TEMPLATE has already executed / only stored is representation, not behaviour (e.g. the legacy
        # `slm_mask_targets` key makes the decoder configure the XY mask before the variables exist): the
        # statement for parametrized sequences is about what they build
        # (is_measured() of a template measured BEFORE it became parametrized answers False — it only looks at
        # _param_measurement; the decoder measures last, i.e. while parametrized: side finding for C13)
        for k in ("declared", "slm", "slm_dmm", "n_stored", "measured", "basis"):
            va.pop(k), vb.pop(k)
    d = pg.diff_tol(va, vb, "", TOL)
    if d:
        fails.append(Fail("static", f"{codec}: {d}", dict(key, where=d.split(":")[0].split("[")[0])))
        return fails
    if not (a.is_parametrized() or a.is_register_mappable()):
        sa, sb = pg.seq_snapshot(a, ctx), pg.seq_snapshot(b, ctx)
        if sa.pop("chan_order") != sb.pop("chan_order"):
            res.chan_order_differs += 1
        d = pg.diff_tol(sa, sb, "", TOL)
        if d:
            fails.append(Fail("timeline", f"{codec}: snapshot{d}", dict(key, kind="snapshot")))
        else:
            ds = pg.diff_samples(pg.seq_samples(a), pg.seq_samples(b), TOL)
            if ds:
                fails.append(Fail("timeline", f"{codec}: {ds}", dict(key, kind="samples")))
        res.compared += 1
        return fails
    # the prefix that is already scheduled
    sa, sb = pg.seq_snapshot(a, ctx), pg.seq_snapshot(b, ctx)
    for k in ("chan_order", "slm", "slm_dmm", "measured"):
        sa.pop(k), sb.pop(k)
    d = pg.diff_tol(sa, sb, "", TOL)
    if d:
        fails.append(Fail("timeline", f"{codec}: scheduled prefix{d}", dict(key, kind="prefix")))
        return fails
    decl = case["decl"]
    for bi, bd in enumerate(case["builds"]):
        kwargs = {n: (v[0] if decl[n]["size"] == 1 and bi % 2 else list(v)) for n, v in bd["assign"].items()}
        if a.is_register_mappable():
            kwargs["qubits"] = dict(bd["qubits"])
        outs = []
        for s in (a, b):
            try:
                with warnings.catch_warnings(), pg.time_limit(20):
                    warnings.simplefilter("ignore")
                    outs.append((s.build(**copy.deepcopy(kwargs)), None))
            except pg.Timeout as e:
                outs.append((None, "timeout"))
            except Exception as e:  # noqa: BLE001
                outs.append((None, pg.norm_err(pg.classify(e))))
        (ba, ea), (bb, eb) = outs
        res.builds += 1
        if ea != eb:
            fails.append(Fail("build", f"{codec}: build {bi}: original -> {ea or 'ok'}, decoded -> {eb or 'ok'}",
                              dict(key, kind="verdict")))
            break
        if ea is not None:
            res.build_err[ea] += 1
            continue
        qids = list(ba.register.qubit_ids)
        xa, xb = pg.seq_snapshot(ba, ctx, qids), pg.seq_snapshot(bb, ctx, qids)
        if xa.pop("chan_order") != xb.pop("chan_order"):
            res.chan_order_differs += 1
        d = pg.diff_tol(xa, xb, "", TOL)
        if d:
            fails.append(Fail("build", f"{codec}: build {bi}: snapshot{d}", dict(key, kind="snapshot")))
            break
        ds = pg.diff_samples(pg.seq_samples(ba), pg.seq_samples(bb), TOL)
        if ds:
            fails.append(Fail("build", f"{codec}: build {bi}: {ds}", dict(key, kind="samples")))
            break
        res.compared += 1
        if codec == "abstract" and not res.built_done:
            res.built_done = True
            fails += roundtrip_built(ctx, ba, case, res)
    return fails


def roundtrip_built(ctx: pg.Ctx, built: Sequence, case: dict, res) -> list[Fail]:
    """"Serialising any sequence (built or parametrized ...)": the BUILT sequence through both codecs."""
    fails = []
    qids = list(built.register.qubit_ids)
    ref = pg.seq_snapshot(built, ctx, qids)
    ref.pop("chan_order")
    for codec, enc, dec in (("abstract", lambda q: q.to_abstract_repr(), Sequence.from_abstract_repr),
                            ("legacy", lambda q: q._serialize(), Sequence._deserialize)):
        if codec == "legacy" and case["device"] == "custom":
            continue
        try:
            with warnings.catch_warnings():
                warnings.simplefilter("ignore")
                doc = enc(built)
        except Exception as e:  # noqa: BLE001
            fails.append(Fail("serialise-raises", f"built sequence, {codec}: {type(e).__name__}: {str(e)[:160]}",
                              dict(codec=codec, err=type(e).__name__, cause=cause_of(e, case["ops"]), built=True)))
            continue
        try:
            with warnings.catch_warnings():
                warnings.simplefilter("ignore")
                back = dec(doc)
        except Exception as e:  # noqa: BLE001
            fails.append(Fail("deserialise-raises", f"built sequence, {codec}: {type(e).__name__}: {str(e)[:160]}",
                              dict(codec=codec, err=type(e).__name__, cause=cause_of(e, case["ops"]), built=True)))
            continue
        got = pg.seq_snapshot(back, ctx, qids)
        got.pop("chan_order")
        d = pg.diff_tol(ref, got, "", TOL)
        if d:
            fails.append(Fail("timeline", f"built sequence, {codec}: snapshot{d}", dict(codec=codec, kind="built")))
            continue
        ds = pg.diff_samples(pg.seq_samples(built), pg.seq_samples(back), TOL)
        if ds:
            fails.append(Fail("timeline", f"built sequence, {codec}: {ds}", dict(codec=codec, kind="built")))
            continue
        res.compared += 1
    return fails


class CaseResult:
    def __init__(self):
        self.fails: list[Fail] = []
        self.compared = 0
        self.builds = 0
        self.build_err = collections.Counter()
        self.chan_order_differs = 0
        self.nops = 0
        self.kinds = collections.Counter()
        self.optional = collections.Counter()
        self.doc_ops = collections.Counter()
        self.parametrized = False
        self.doc = None
        self.built_done = False
        self.own_validations = 0


def zlib_pick(doc: str) -> bool:
    import zlib

    return zlib.crc32(doc.encode()) % 6 == 0


ROUND_RE = re.compile(r"No abstract representation for 'round'")


def _custom_from_variable(x) -> bool:
    if isinstance(x, list) and len(x) == 2 and x[0] == "custom" and isinstance(x[1], dict) and "V" in x[1]:
        return True
    if isinstance(x, dict):
        return any(_custom_from_variable(v) for v in x.values())
    if isinstance(x, list):
        return any(_custom_from_variable(v) for v in x)
    return False


def cause_of(e: BaseException, case_ops) -> str:
    """Discriminating cause of a refused (de)serialisation, read off the message."""
    msg = f"{e} {e.__cause__ or ''}"
    if ROUND_RE.search(msg):
        return "round"
    m = re.search(r"No serialization support for 'pulser\.math\.(\w+)'", msg)
    if m:
        return m.group(1)
    if "Export of an InterpolatedWaveform is only supported" in msg:
        return "interp-export"
    if "Keyword argument 'interpolator' is not in the signature" in msg:
        return "interpolator-kwarg"
    if "Object of type slice is not JSON serializable" in msg:
        return "variable-slice"
    if isinstance(e, TypeError) and "len() of unsized object" in msg:
        return "built-target-array"
    if isinstance(e, TypeError) and "unhashable type: 'list'" in msg:
        return "variable-item-list-key"
    if isinstance(e, IndexError) and "list index out of range" in msg:
        return "kwargs-only-paramobj"
    has_slm = any(o["k"] == "slm" for o in case_ops)
    if isinstance(e, IndexError) and "tuple index out of range" in msg and has_slm:
        return "slm-by-keyword"
    if isinstance(e, ValueError) and "zero-size array to reduction operation maximum" in msg and has_slm:
        return "slm-empty-global"
    if "The serialization of the parametrized sequence failed" in msg and _custom_from_variable(case_ops):
        return "custom-samples-variable"
    return "other"


def uses_round(ops) -> bool:
    return any(e.get("u") in ("round", "pyround") for x in pg.all_exprs(ops) for e in pg._expr_nodes(x))


def run_case(case: dict, codecs=("abstract", "legacy")) -> CaseResult:
    res = CaseResult()
    ctx = make_ctx(case)
    seq, used = build_sequence(ctx, case)
    res.nops = len(used)
    res.parametrized = seq.is_parametrized()
    for op in used:
        res.kinds[op["k"]] += 1
        for k, dflt in (("at_rest", None), ("corr", False), ("proto", None), ("post", 0.0), ("optimal", 0.0)):
            if k in op and not pg.is_expr(op[k]):
                d = dflt if dflt is not None else {"delay": False, "align": True}.get(op["k"]) if k == "at_rest" \
                    else ("no-delay" if op["k"] == "adddmm" else "min-delay")
                res.optional[f"{op['k']}.{k}:{'default' if op[k] == d else 'non-default'}"] += 1
    rounding = uses_round(used)
    if "abstract" in codecs:
        doc = None
        try:
            with warnings.catch_warnings():
                warnings.simplefilter("ignore")
                doc = seq.to_abstract_repr()
        except Exception as e:  # noqa: BLE001
            res.fails.append(Fail("serialise-raises", f"to_abstract_repr: {type(e).__name__}: {str(e)[:200]}",
                                  dict(codec="abstract", err=type(e).__name__, cause=cause_of(e, used))))
        if doc is not None:
            res.doc = doc
            try:
                validate_abstract_repr(doc, "sequence")
            except Exception as e:  # noqa: BLE001
                res.fails.append(Fail("schema", f"validate_abstract_repr: {type(e).__name__}: {str(e)[:200]}",
                                      dict(codec="abstract")))
            if zlib_pick(doc):
                # every 6th document also with OUR validator on the schema files (the library's own
                # validation function is code under test)
                errs = pg.schema_errors(doc)
                res.own_validations += 1
                if errs:
                    res.fails.append(Fail("schema", f"independent validation: {errs[0]}",
                                          dict(codec="abstract", view="independent")))
            for o in json.loads(doc)["operations"]:
                res.doc_ops[o["op"]] += 1
            dec = None
            try:
                with warnings.catch_warnings():
                    warnings.simplefilter("ignore")
                    dec = Sequence.from_abstract_repr(doc)
            except Exception as e:  # noqa: BLE001
                res.fails.append(Fail("deserialise-raises",
                                      f"from_abstract_repr: {type(e).__name__}: {str(e)[:200]}",
                                      dict(codec="abstract", err=type(e).__name__, cause=cause_of(e, used))))
            if dec is not None:
                res.fails += compare(ctx, seq, dec, case, "abstract", res)
                if case["device"] != "custom" and not res.fails and seq.is_parametrized():
                    # the decoded sequence (every object of which was made by the deserializer, with keyword
                    # arguments) through the legacy codec
                    try:
                        with warnings.catch_warnings():
                            warnings.simplefilter("ignore")
                            dec2 = Sequence._deserialize(dec._serialize())
                        res.fails += compare(ctx, seq, dec2, case, "abstract+legacy", res)
                    except Exception as e:  # noqa: BLE001
                        res.fails.append(Fail("serialise-raises",
                                              f"legacy codec on the decoded sequence: {type(e).__name__}: {str(e)[:160]}",
                                              dict(codec="abstract+legacy", err=type(e).__name__,
                                                   cause=cause_of(e, used))))
                try:
                    with warnings.catch_warnings():
                        warnings.simplefilter("ignore")
                        doc2 = dec.to_abstract_repr(skip_validation=True)
                    d = pg.diff_tol(json.loads(doc), json.loads(doc2), "", 0.0)
                    if d:
                        res.fails.append(Fail("reserialise-stable", f"second document differs: {d}",
                                              dict(codec="abstract", where=d.split(":")[0].split("[")[0])))
                except Exception as e:  # noqa: BLE001
                    res.fails.append(Fail("reserialise-stable", f"decoded sequence cannot be serialised: "
                                          f"{type(e).__name__}: {str(e)[:160]}", dict(codec="abstract")))
    if "legacy" in codecs and case["device"] != "custom":   # (legacy JSON: built-in and virtual devices only)
        leg = None
        try:
            with warnings.catch_warnings():
                warnings.simplefilter("ignore")
                leg = seq._serialize()
        except Exception as e:  # noqa: BLE001
            res.fails.append(Fail("serialise-raises", f"_serialize: {type(e).__name__}: {str(e)[:200]}",
                                  dict(codec="legacy", err=type(e).__name__, cause=cause_of(e, used))))
        if leg is not None:
            dec = None
            try:
                with warnings.catch_warnings():
                    warnings.simplefilter("ignore")
                    dec = Sequence._deserialize(leg)
            except Exception as e:  # noqa: BLE001
                res.fails.append(Fail("deserialise-raises", f"_deserialize: {type(e).__name__}: {str(e)[:200]}",
                                      dict(codec="legacy", err=type(e).__name__, cause=cause_of(e, used))))
            if dec is not None:
                res.fails += compare(ctx, seq, dec, case, "legacy", res)
    # the sequence we serialised is still what it was (serialisation is read-only: C09's clause, cheap here)
    return res


# --------------------------------------------------------------------------------------
# shrinking
# --------------------------------------------------------------------------------------
def shrink(case: dict, clause: str, codec: str | None, budget: int = 50) -> dict:
    codecs = (codec,) if codec else ("abstract", "legacy")

    def bad(c):
        try:
            r = run_case(c, codecs)
        except Exception:  # noqa: BLE001
            return False
        return any(f.clause == clause for f in r.fails)

    cur = copy.deepcopy(case)
    tries = 0
    i = len(cur["ops"]) - 1
    while i >= 0 and tries < budget:
        cand = copy.deepcopy(cur)
        del cand["ops"][i]
        tries += 1
        if cand["ops"] and bad(cand):
            cur = cand
        i -= 1
    if len(cur["builds"]) > 1 and tries < budget:
        for j in range(len(cur["builds"]) - 1, -1, -1):
            cand = copy.deepcopy(cur)
            del cand["builds"][j]
            if cand["builds"] and bad(cand):
                cur = cand
    return cur


# --------------------------------------------------------------------------------------
# table obligations mirrored in python (to NAME the entry when a `decide` fails)
# --------------------------------------------------------------------------------------
def failing_table_entries(tabs: dict) -> list[str]:
    out = []
    for r in tabs["rows"]:
        em = r["emitted"]
        el = r["elided"]
        keys = em + [k for k, _ in el]
        dec_opt = r["dec_optional"]
        bad = []
        if not all(tuple(kv) in [tuple(x) for x in dec_opt] for kv in el):
            bad.append("(1) elided default not re-inserted with the same value")
        if not all(k in em for k in r["dec_required"]):
            bad.append("(2) decoder reads a key that is not always emitted")
        if not all(k in em or k in [x for x, _ in el] for k, _ in dec_opt):
            bad.append("(3) decoder defaults an unknown key")
        if not (all(k in r["schema_props"] for k in keys) and r["schema_closed"]):
            bad.append("(4) emitted key not permitted by the schema")
        if not all(k in em for k in r["schema_required"]):
            bad.append("(5) schema-required key not always emitted")
        if not all(k in r["dec_required"] or k in [x for x, _ in dec_opt] for k in keys):
            bad.append("(6) emitted key never read")
        if r["method"] in r["calls"]:
            if not all(tuple(x) in [tuple(y) for y in r["dec_param"]] for x in r["enc_param"]):
                bad.append("(7) key carries different arguments on the two sides")
            if not all(tuple(x) in [tuple(y) for y in r["method_defaults"]] for x in el):
                bad.append("(7) elided at a value that is not the method's default")
        if not r["method"] or not r["schema_def"]:
            bad.append("(8) operation unknown to the decoder / schema")
        if bad:
            out.append(f"row op={r['op']} calls={r['calls']}: " + "; ".join(bad))
    t = tabs["top"]
    if not all(k in t["always"] for k in t["schema_required"]):
        out.append("top level: schema-required key not always written")
    if not all(k in t["schema_props"] for k in t["always"] + t["conditional"]):
        out.append("top level: written key not allowed by the schema")
    if not all(k in t["always"] for k in t["dec_required"]):
        out.append("top level: key read unconditionally is not always written")
    if tabs["uncovered_calls"] or tabs["orphan_dec"] or tabs["orphan_schema"]:
        out.append(f"coverage: uncovered calls {tabs['uncovered_calls']}, orphan decoder ops {tabs['orphan_dec']}, "
                   f"orphan schema ops {tabs['orphan_schema']}")
    for m, e in tabs["expr_rows"]:
        if m in KNOWN_BROKEN_OPERATORS:
            continue
        if e not in tabs["expr_accepted"] or e not in tabs["expr_unary"] + tabs["expr_binary"]:
            out.append(f"operator {m}: serialises to {e!r}, not accepted by the decoder / schema")
    return out


# --------------------------------------------------------------------------------------
# build / audit
# --------------------------------------------------------------------------------------
def _theorem_at(lines: list[str], lineno: int) -> str | None:
    for i in range(min(lineno, len(lines)) - 1, -1, -1):
        m = re.match(r"\s*theorem\s+(\S+)", lines[i])
        if m:
            return m.group(1)
        if re.match(r"\s*example\b", lines[i]):
            return "example"
    return None


def classify_build_failure(out: str) -> tuple[bool, list[str]]:
    src = (common.LEAN_DIR / "Properties" / "C04.lean").read_text().splitlines()
    broken, other = [], []
    for m in re.finditer(r"error: (\S+?\.lean):(\d+):(\d+)", out):
        f, ln = m.group(1), int(m.group(2))
        if f.endswith("Properties/C04.lean"):
            th = _theorem_at(src, ln)
            if th == "example":
                continue    # (the non-vacuity examples are evaluated over the same generated table)
            (broken if th in TIE_THEOREMS else other).append(th or f"{f}:{ln}")
        elif f.endswith("Generated/AbstractOps.lean"):
            broken.append(f"Generated/AbstractOps.lean:{ln}")
        else:
            other.append(f"{f}:{ln}")
    return bool(broken) and not other, sorted(set(broken)) or sorted(set(other))


def lean_obligations():
    thms = common.property_theorems(PROP)
    bad = pg.forbidden_in_closure(TARGETS)
    if bad:
        raise InfraError("forbidden tokens in Lean sources: " + "; ".join(bad[:5]))
    axioms = common.audit_axioms(f"Properties.{PROP}", thms) if thms else {}
    discharged, offending = 0, {}
    for t in thms:
        ax = axioms.get(t)
        if ax is not None and set(ax) <= common.ALLOWED_AXIOMS:
            discharged += 1
        else:
            offending[t] = ax
    if offending:
        raise InfraError(f"axiom audit failed: {offending}")
    return thms, axioms, discharged


def corpus_items():
    d = common.CORPUS / PROP
    out = []
    if d.exists():
        for f in sorted(d.glob("*.json")):
            item = json.loads(f.read_text())
            item["_file"] = f.name
            out.append(item)
    return out


def findings():
    fs = load_known_findings()
    local = common.CORPUS / PROP / "known_findings.jsonl"   # proposed lines, until integrated
    ids = {f.get("id") for f in fs}
    if local.exists():
        for line in local.read_text().splitlines():
            line = line.strip()
            if line and not line.startswith("#"):
                f = json.loads(line)
                if f.get("id") not in ids:
                    fs.append(f)
    return fs


# --------------------------------------------------------------------------------------
# check
# --------------------------------------------------------------------------------------
def check(tier: str, seed: int) -> int:
    timer = Timer()
    pg.install_check_schema_memo()
    pg.install_validate_memo()
    tie_broken: list[dict] = []
    tabs = None
    try:
        tabs, _changed = tb.regenerate()
    except tb.TableError as e:
        tie_broken.append(dict(kind="table-extraction", table="PulserModel/Generated/AbstractOps.lean", what=str(e)))
    ok, out = common.lake_build(TARGETS)
    if not ok:
        is_tie, names = classify_build_failure(out)
        if not is_tie and not tie_broken:
            raise InfraError("lake build failed in hand-written files " + ", ".join(names) + ":\n" + out[-2500:])
        tie_broken.append(dict(kind="table-side-condition", theorems=names,
                               table="PulserModel/Generated/AbstractOps.lean",
                               entries=failing_table_entries(tabs) if tabs else [],
                               what="`decide` over the regenerated table no longer holds",
                               lean_output=out[-1500:]))
    if ok and not tie_broken:
        thms, axioms, discharged = lean_obligations()
    else:
        thms, axioms, discharged = common.property_theorems(PROP), {}, 0

    rng = random.Random(f"{PROP}-{seed}")
    known = findings()
    stats = dict(positions=collections.Counter(), operators=collections.Counter(), decor={},
                 ctx_errors=collections.Counter(), devices=collections.Counter(), registers=collections.Counter(),
                 kinds=collections.Counter(), optional=collections.Counter(), doc_ops=collections.Counter(),
                 build_errors=collections.Counter(), sizes=collections.Counter(), chan_order=collections.Counter(),
                 flavour=collections.Counter())
    evaluations = 0
    compared = 0
    distinct = set()
    nontrivial = 0
    samples = []
    violations = []
    known_hits = collections.Counter()
    seen = set()

    def handle(case, res: CaseResult, origin: str):
        nonlocal evaluations, compared, nontrivial
        evaluations += 1
        stats["flavour"]["independently_validated_documents"] += res.own_validations
        compared += res.compared
        c = json.dumps([case["device"], case["spec"], case["ops"], case["mappable"]], sort_keys=True, default=str)
        if c not in distinct:
            distinct.add(c)
            if res.nops >= 3 and res.compared >= 2:
                nontrivial += 1
        stats["devices"][case["device"]] += 1
        stats["registers"]["mappable" if case["mappable"] else
                           ("layout" if case.get("with_layout") else "plain")] += 1
        stats["flavour"]["parametrized" if res.parametrized else "concrete"] += 1
        stats["sizes"][min(res.nops, 25)] += 1
        stats["chan_order"]["differs" if res.chan_order_differs else "same"] += 1
        for name in ("kinds", "optional", "doc_ops"):
            for k, v in getattr(res, name).items():
                stats[name][k] += v
        for k, v in res.build_err.items():
            stats["build_errors"][k] += v
        if len(samples) < 3 and res.nops >= 5 and res.doc and len(res.doc) < 6000:
            samples.append(dict(device=case["device"], mappable=case["mappable"], ops=case["ops"][:8],
                                document=json.loads(res.doc)["operations"][:6], origin=origin))
        for f in res.fails:
            kf = match_known(f.prop, f.key, known)
            if kf is not None:
                known_hits[kf["id"]] += 1
                continue
            sig = json.dumps([f.prop, f.key], sort_keys=True, default=str)
            if sig in seen:
                continue
            seen.add(sig)
            small = shrink(case, f.clause, f.key.get("codec")) if origin != "corpus" else case
            violations.append(dict(property=PROP, kind="monitor", clause=f.clause, message=f.msg, key=f.key,
                                   case=small))

    for item in corpus_items():
        handle(item, run_case(item), "corpus")
    n = COUNTS[tier]
    if tie_broken:
        n = int(n * 2)      # search harder: the tie is broken
    made = attempts = 0
    while made < n and attempts < 4 * n:
        attempts += 1
        case = gen_program(rng, stats)
        if case is None:
            continue
        made += 1
        handle(case, run_case(case), "generated")
        if violations and tier == "quick":
            break
    if tie_broken and not violations:
        violations.append(dict(property=PROP, kind="tie", broken=tie_broken, no_failing_input_found=True,
                               what="the table obligation over PulserModel/Generated/AbstractOps.lean no longer "
                                    "checks; the round-trip monitor found no failing program in "
                                    f"{made} generated programs"))

    ev = dict(
        property_id=PROP, tier=tier, seed=seed, level="proof",
        coverage=dict(
            obligations=len(thms), discharged=discharged,
            checker_cmd="python harness/tables_c04.py (regenerate) && lake build " + " ".join(TARGETS)
                        + " && #print axioms (harness/common.py audit_axioms)",
            trusted_base=TRUSTED_BASE, theorems=thms, axioms=axioms,
            table_obligations=sorted(TIE_THEOREMS), table_rows=len(tabs["rows"]) if tabs else 0,
            tie_broken=tie_broken,
            evaluations=evaluations, distinct_nontrivial=nontrivial,
            traces_validated_against_impl=compared,
            rule="programs = gen.HistoryGen histories on a real device (AnalogDevice, DigitalAnalogDevice, "
                 "MockDevice, a custom Device) or a lattice VirtualDevice, widened to every pulse constructor / "
                 "waveform kind / index targeting / SLM mask / magnetic field / measurement, optionally with "
                 "variable expressions (all OpSupport operators) and a mappable or layout register "
                 "(harness/paramgen.py); each is serialised to the abstract representation and to the legacy JSON, "
                 "validated, decoded and compared; distinct = distinct (device, program, register kind); "
                 "non-trivial = at least 3 accepted calls and at least 2 completed comparisons",
            samples=samples,
            devices=dict(stats["devices"]), registers=dict(stats["registers"]), flavour=dict(stats["flavour"]),
            op_kinds=dict(stats["kinds"]), abstract_operations=dict(stats["doc_ops"]),
            optional_arguments=dict(stats["optional"]), decorations=dict(stats["decor"]),
            parametrised_positions=dict(stats["positions"]), expression_operators=dict(stats["operators"]),
            build_error_histogram=dict(stats["build_errors"]), ops_per_program=dict(stats["sizes"]),
            channel_table_order_vs_original=dict(stats["chan_order"]),
            context_errors=dict(stats["ctx_errors"]),
            known_findings_hit=dict(known_hits), uncovered_clauses=UNCOVERED,
            repo_fingerprint=common.repo_fingerprint(),
        ),
        assumptions=TRUSTED_BASE, wall_s=timer.s(), violations=len(violations),
    )
    write_evidence(PROP, ev)
    printed = set()
    for kf in known:
        if kf.get("status") == "known" and known_hits.get(kf["id"], 0) and kf["id"] not in printed:
            printed.add(kf["id"])
            print(f"KNOWN-FINDING: property={kf['property']} [{kf['id']}] {kf['what']} "
                  f"(reproduced {known_hits[kf['id']]}x in this run)")
    if violations:
        for v in violations:
            p = write_replay(PROP, v)
            tail = " no-failing-input-found" if v.get("no_failing_input_found") else ""
            print(f"VIOLATION property={PROP} replay={p}{tail}")
        return 1
    print(f"OK property={PROP} tier={tier} theorems={discharged}/{len(thms)} programs={evaluations} "
          f"comparisons={compared} wall={timer.s()}s")
    return 0


def replay(path: str) -> int:
    item = json.loads(Path(path).read_text())
    if item.get("kind") == "tie":
        print("table obligation no longer checks:")
        for b in item["broken"]:
            print("  ", b.get("kind"), b.get("theorems"), b.get("entries"), b.get("what"))
        print(f"VIOLATION property={PROP} replay={path} no-failing-input-found")
        return 1
    pg.install_check_schema_memo()
    pg.install_validate_memo()
    case = item.get("case", item)
    res = run_case(case)
    print(f"program: {res.nops} accepted calls, parametrized={res.parametrized}, comparisons={res.compared}")
    for f in res.fails:
        print(f"  {f}")
    if res.fails:
        print(f"VIOLATION property={PROP} replay={path}")
        return 1
    print("replay: property holds on this case")
    return 0
