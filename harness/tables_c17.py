"""C17 translator: live code -> lean/PulserModel/Generated/Fields.lean

What is extracted, and how (everything from the code that is imported *now*):

* ``dataclasses.fields`` (name, init, default) of Rydberg / Raman / Microwave / DMM, RydbergEOM,
  Device / VirtualDevice, NoiseModel, SimConfig                                   -- reflection
* the ``OPTIONAL_*`` tuples each ``_to_abstract_repr`` iterates over               -- ast + module globals
* ``PARAMS_WITH_ABSTR_REPR`` (live constant), whether ``dmm_objects`` is dropped when empty -- probing the encoder
* the ``basis`` dispatch chain of ``_deserialize_channel``                         -- ast
* literal keys subscripted / ``.get``-ed in the ``_deserialize_*`` functions       -- ast
* what the live decoder does when a key is absent (fallback value or KeyError)     -- probing the live
  ``_deserialize_device_object`` / ``_deserialize_layout`` with key-deleted JSON
* ``required`` / ``properties`` of the matching JSON-schema definitions            -- json.load
* ``_NOISE_TYPE_PARAMS``, ``_PARAM_TO_NOISE_TYPE``, ``_POSITIVE | _PROBABILITY_LIKE``,
  ``_DIFF_NOISE_PARAMS``, ``NoiseModel.__init__`` signature                        -- live constants / inspect

A self-test compares the key sets the tables predict (always-emitted / possibly-emitted) with what the
live encoders write for minimal and maximal probe objects; a disagreement is a ``TableError`` (the
table could not be extracted -> broken tie).

Also home of the value canonicalisation shared with harness/props/C17.py (``to_value`` & co).
"""
from __future__ import annotations

import ast
import copy
import dataclasses
import enum
import inspect
import json
import textwrap
import warnings
from fractions import Fraction
from pathlib import Path

import numpy as np

import common


class TableError(Exception):
    """A table cannot be extracted from the source as it is now (broken tie)."""


CLASS_KEY = "__class__"

# --------------------------------------------------------------------------------------
# values  (tagged tuples)
# --------------------------------------------------------------------------------------
NULL = ("null",)


def vbool(b):
    return ("bool", bool(b))


def vnum(x):
    return ("num", Fraction(x))


def vstr(s):
    return ("str", str(s))


def vlist(xs):
    return ("list", list(xs))


def vobj(kvs):
    return ("obj", [(str(k), v) for k, v in kvs])


def _complex_value(c: complex):
    if c.imag == 0:
        return vnum(c.real)
    return vobj([("real", vnum(c.real)), ("imag", vnum(c.imag))])


def to_value(x, _id: str | None = None):
    """Canonical model value of a python object (trusted adapter).

    enums -> names, tuples -> lists, floats -> exact rationals, numpy -> nested lists,
    channels / EOM / devices / layouts / noise models -> records of their dataclass fields."""
    import pulser
    from pulser.channels.base_channel import Channel
    from pulser.channels.eom import BaseEOM
    from pulser.devices._device_datacls import BaseDevice
    from pulser.register.register_layout import RegisterLayout

    if x is None:
        return NULL
    if isinstance(x, (bool, np.bool_)):
        return vbool(x)
    if isinstance(x, (int, np.integer)):
        return vnum(int(x))
    if isinstance(x, (float, np.floating)):
        f = float(x)
        if f != f or f in (float("inf"), float("-inf")):
            return vstr(repr(f))
        return vnum(f)
    if isinstance(x, (complex, np.complexfloating)):
        return _complex_value(complex(x))
    if isinstance(x, str):
        return vstr(x)
    if isinstance(x, enum.Enum):
        return vstr(x.name)
    if isinstance(x, np.ndarray):
        return to_value(x.tolist())
    if isinstance(x, (list, tuple)):
        return vlist([to_value(e) for e in x])
    if isinstance(x, dict):
        return vobj([(k, to_value(v)) for k, v in x.items()])
    if isinstance(x, Channel):
        return channel_value(x, _id)
    if isinstance(x, BaseEOM):
        return vobj([(f.name, to_value(getattr(x, f.name))) for f in dataclasses.fields(x)])
    if isinstance(x, BaseDevice):
        return device_value(x)
    if isinstance(x, RegisterLayout):
        return layout_value(x)
    if isinstance(x, pulser.NoiseModel):
        return noise_value(x)
    raise TypeError(f"no model value for {type(x)}")


def channel_value(ch, id_: str | None):
    kvs = [(CLASS_KEY, vstr(type(ch).__name__)), ("id", NULL if id_ is None else vstr(id_))]
    for f in dataclasses.fields(ch):
        kvs.append((f.name, to_value(getattr(ch, f.name))))
    return vobj(kvs)


def device_field_names(cls) -> list[str]:
    """Effective field list of the model record: PARAMS_WITH_ABSTR_REPR replaced by abstract keys."""
    out = []
    for f in dataclasses.fields(cls):
        if f.name == "channel_ids":
            continue
        out.append("channels" if f.name == "channel_objects" else f.name)
    return out


def device_value(dev):
    kvs = [(CLASS_KEY, vstr(type(dev).__name__))]
    for name in device_field_names(type(dev)):
        # raw dataclass fields, zipped here (not through the `channels` / `dmm_channels` properties of the
        # code under test); DMM ids follow the documented rule "dmm_[index in dmm_objects]"
        if name == "channels":
            v = vlist([channel_value(ch, cid) for cid, ch in zip(dev.channel_ids, dev.channel_objects)])
        elif name == "dmm_objects":
            v = vlist([channel_value(ch, f"dmm_{i}") for i, ch in enumerate(dev.dmm_objects)])
        else:
            v = to_value(getattr(dev, name))
        kvs.append((name, v))
    return vobj(kvs)


def layout_value(layout):
    return vobj([("coordinates", to_value(layout.coords.tolist())), ("slug", to_value(layout.slug))])


def _oper_array(op):
    try:
        return np.array(op, dtype=complex)
    except TypeError:  # an operator object (qutip.Qobj) stored as it was given
        return np.array(op.full(), dtype=complex)


def noise_value(nm):
    kvs = []
    for f in dataclasses.fields(nm):
        v = getattr(nm, f.name)
        if f.name == "eff_noise_opers":
            v = [_oper_array(op).tolist() for op in v]
        kvs.append((f.name, to_value(v)))
    return vobj(kvs)


def json_value(j):
    """Model value of parsed JSON (dict order kept)."""
    if j is None:
        return NULL
    if isinstance(j, bool):
        return vbool(j)
    if isinstance(j, (int, float)):
        return vnum(j)
    if isinstance(j, str):
        return vstr(j)
    if isinstance(j, list):
        return vlist([json_value(e) for e in j])
    if isinstance(j, dict):
        return vobj([(k, json_value(v)) for k, v in j.items()])
    raise TypeError(type(j))


def value_key(v):
    """Order-insensitive (for objects) hashable canonical form, for comparisons."""
    t = v[0]
    if t == "list":
        return ("list", tuple(value_key(e) for e in v[1]))
    if t == "obj":
        return ("obj", tuple(sorted((k, value_key(e)) for k, e in v[1])))
    return v


def value_py(v):
    """Plain python rendering (for messages / replay files)."""
    t = v[0]
    if t == "null":
        return None
    if t == "num":
        q = v[1]
        return int(q) if q.denominator == 1 else float(q)
    if t in ("bool", "str"):
        return v[1]
    if t == "list":
        return [value_py(e) for e in v[1]]
    return {k: value_py(e) for k, e in v[1]}


# ---- wire (driver) form: prefix tokens --------------------------------------------------
def wire(v) -> str:
    t = v[0]
    if t == "null":
        return "N"
    if t == "bool":
        return "T" if v[1] else "F"
    if t == "num":
        return "#" + common.rat(v[1])
    if t == "str":
        return "S" + v[1].encode("utf-8").hex()
    if t == "list":
        return " ".join([f"L{len(v[1])}"] + [wire(e) for e in v[1]])
    return " ".join([f"O{len(v[1])}"] + [x for k, e in v[1] for x in ("S" + k.encode("utf-8").hex(), wire(e))])


def unwire(s: str):
    toks = s.split()
    pos = 0

    def rd():
        nonlocal pos
        tok = toks[pos]
        pos += 1
        c = tok[0]
        if c == "N":
            return NULL
        if c == "T":
            return vbool(True)
        if c == "F":
            return vbool(False)
        if c == "#":
            return vnum(Fraction(tok[1:]))
        if c == "S":
            return vstr(bytes.fromhex(tok[1:]).decode("utf-8"))
        if c == "L":
            return vlist([rd() for _ in range(int(tok[1:]))])
        if c == "O":
            out = []
            for _ in range(int(tok[1:])):
                k = rd()
                out.append((k[1], rd()))
            return vobj(out)
        raise ValueError(f"bad token {tok}")

    v = rd()
    if pos != len(toks):
        raise ValueError("trailing tokens")
    return v


# ---- Lean literal ----------------------------------------------------------------------
def lean_str(s: str) -> str:
    out = []
    for ch in s:
        if ch == "\\":
            out.append("\\\\")
        elif ch == '"':
            out.append('\\"')
        elif ch == "\n":
            out.append("\\n")
        elif ch == "\t":
            out.append("\\t")
        elif ch == "\r":
            out.append("\\r")
        elif ord(ch) < 32:
            out.append("\\x%02x" % ord(ch))
        else:
            out.append(ch)
    return '"' + "".join(out) + '"'


def lean_value(v) -> str:
    t = v[0]
    if t == "null":
        return ".null"
    if t == "bool":
        return ".bool " + ("true" if v[1] else "false")
    if t == "num":
        q = v[1]
        n = f"({q.numerator})" if q.numerator < 0 else str(q.numerator)
        return f".num {n}" if q.denominator == 1 else f".num (mkRat {n} {q.denominator})"
    if t == "str":
        return ".str " + lean_str(v[1])
    if t == "list":
        return ".list [" + ", ".join(lean_value(e) for e in v[1]) + "]"
    return ".obj [" + ", ".join(f"({lean_str(k)}, {lean_value(e)})" for k, e in v[1]) + "]"


def lean_strs(xs) -> str:
    return "[" + ", ".join(lean_str(x) for x in xs) + "]"


# --------------------------------------------------------------------------------------
# source access
# --------------------------------------------------------------------------------------
def _func_ast(fn) -> ast.FunctionDef:
    src = textwrap.dedent(inspect.getsource(fn))
    node = ast.parse(src).body[0]
    if not isinstance(node, (ast.FunctionDef, ast.AsyncFunctionDef)):
        raise TableError(f"cannot parse {fn}")
    return node


def _unwrap(fn):
    while hasattr(fn, "__wrapped__"):
        fn = fn.__wrapped__
    return getattr(fn, "__func__", fn)


def optional_tuples_of_encoder(cls) -> list[str]:
    """Union of the OPTIONAL_* tuples referenced by cls._to_abstract_repr and the
    super()._to_abstract_repr it chains to."""
    names: list[str] = []
    seen_tuples = []
    for k in cls.__mro__:
        fn = k.__dict__.get("_to_abstract_repr")
        if fn is None:
            continue
        fn = _unwrap(fn)
        tree = _func_ast(fn)
        glob = fn.__globals__
        calls_super = False
        for node in ast.walk(tree):
            if isinstance(node, ast.Name) and node.id.startswith("OPTIONAL_"):
                if node.id not in glob:
                    raise TableError(f"{node.id} referenced by {k.__name__}._to_abstract_repr is undefined")
                if node.id not in seen_tuples:
                    seen_tuples.append(node.id)
                    for x in glob[node.id]:
                        if x not in names:
                            names.append(x)
            if (isinstance(node, ast.Call) and isinstance(node.func, ast.Attribute)
                    and node.func.attr == "_to_abstract_repr"
                    and isinstance(node.func.value, ast.Call)
                    and isinstance(node.func.value.func, ast.Name) and node.func.value.func.id == "super"):
                calls_super = True
        if not calls_super:
            break
    if not seen_tuples:
        raise TableError(f"{cls.__name__}._to_abstract_repr references no OPTIONAL_* tuple")
    return names


def dispatch_rules() -> list[tuple[str, str | None, str]]:
    """(basis constant, key that must be present | None, class) from `_deserialize_channel`."""
    from pulser.json.abstract_repr import deserializer

    tree = _func_ast(deserializer._deserialize_channel)
    rules: list[tuple[str, str | None, str]] = []

    def basis_const(test):
        if (isinstance(test, ast.Compare) and len(test.ops) == 1 and isinstance(test.ops[0], ast.Eq)
                and isinstance(test.left, ast.Subscript) and isinstance(test.left.slice, ast.Constant)
                and test.left.slice.value == "basis" and isinstance(test.comparators[0], ast.Constant)):
            return test.comparators[0].value
        return None

    def cls_assigned(stmts):
        for st in stmts:
            if (isinstance(st, ast.Assign) and len(st.targets) == 1 and isinstance(st.targets[0], ast.Name)
                    and st.targets[0].id == "channel_cls" and isinstance(st.value, ast.Name)):
                return st.value.id
        return None

    def handle_body(b, body):
        direct = cls_assigned(body)
        if direct:
            rules.append((b, None, direct))
            return
        for st in body:
            if (isinstance(st, ast.If) and isinstance(st.test, ast.Compare) and len(st.test.ops) == 1
                    and isinstance(st.test.ops[0], ast.In) and isinstance(st.test.left, ast.Constant)):
                yes, no = cls_assigned(st.body), cls_assigned(st.orelse)
                if yes and no:
                    rules.append((b, st.test.left.value, yes))
                    rules.append((b, None, no))
                    return
        raise TableError(f"_deserialize_channel: cannot read the class chosen for basis {b!r}")

    node = next((st for st in tree.body if isinstance(st, ast.If) and basis_const(st.test) is not None), None)
    if node is None:
        raise TableError("_deserialize_channel: no `if obj['basis'] == ...` chain")
    while node is not None:
        b = basis_const(node.test)
        if b is None:
            raise TableError("_deserialize_channel: unexpected test in the basis chain")
        handle_body(b, node.body)
        nxt = node.orelse
        if len(nxt) == 1 and isinstance(nxt[0], ast.If):
            node = nxt[0]
        elif not nxt:
            node = None
        else:
            raise TableError("_deserialize_channel: unexpected else branch in the basis chain")
    return rules


def literal_keys(fn, var_names: set[str]) -> tuple[list[str], list[tuple[str, object]]]:
    """Literal keys `var["k"]` (load context) and `var.get("k"[, default])` in a decoder function."""
    tree = _func_ast(fn)
    sub, got = [], []
    for node in ast.walk(tree):
        if (isinstance(node, ast.Subscript) and isinstance(node.ctx, ast.Load) and isinstance(node.value, ast.Name)
                and node.value.id in var_names and isinstance(node.slice, ast.Constant)
                and isinstance(node.slice.value, str)):
            if node.slice.value not in sub:
                sub.append(node.slice.value)
        if (isinstance(node, ast.Call) and isinstance(node.func, ast.Attribute) and node.func.attr == "get"
                and isinstance(node.func.value, ast.Name) and node.func.value.id in var_names and node.args
                and isinstance(node.args[0], ast.Constant)):
            dflt = None
            if len(node.args) > 1:
                try:
                    dflt = ast.literal_eval(node.args[1])
                except ValueError as e:
                    raise TableError(f"non-literal .get default in {fn.__name__}") from e
            got.append((node.args[0].value, dflt))
    return sub, got


# --------------------------------------------------------------------------------------
# probe objects
# --------------------------------------------------------------------------------------
def probe_eom(full: bool = True):
    from pulser.channels.eom import RydbergBeam, RydbergEOM

    kw = dict(mod_bandwidth=24.0, limiting_beam=RydbergBeam.RED, max_limiting_amp=40.0,
              intermediate_detuning=700.0, controlled_beams=(RydbergBeam.BLUE, RydbergBeam.RED))
    if full:
        kw.update(custom_buffer_time=240, multiple_beam_control=False, blue_shift_coeff=1.5, red_shift_coeff=0.75)
    return RydbergEOM(**kw)


def probe_channels(cls, physical: bool) -> list:
    """Probe instances of a channel class: every field is away from its default in at least one."""
    from pulser.channels import DMM, Rydberg

    common_kw = dict(clock_period=4, min_duration=16, max_duration=2 ** 20, min_avg_amp=0.5,
                     mod_bandwidth=8.0, custom_phase_jump_time=20)
    out = []
    if cls is DMM:
        out.append(DMM(bottom_detuning=-20.0, total_bottom_detuning=-2000.0, propagation_dir=(0.0, 1.0, 0.0),
                       **common_kw))
        out.append(DMM(bottom_detuning=-20.0, total_bottom_detuning=-2000.0, max_duration=2 ** 20))
        if not physical:
            out.append(DMM())
        return out
    eom = dict(eom_config=probe_eom()) if cls is Rydberg else {}
    out.append(cls.Local(20.0, 10.0, min_retarget_interval=220, fixed_retarget_t=30, max_targets=3,
                         **common_kw, **eom))
    out.append(cls.Global(20.0, 10.0, propagation_dir=(0.0, 1.0, 0.0), **common_kw))
    out.append(cls.Global(20.0, 10.0))
    out.append(cls.Local(20.0, 10.0, max_targets=2))
    if cls is Rydberg:
        out.append(cls.Global(20.0, 10.0, mod_bandwidth=8.0, eom_config=probe_eom(full=False)))
    if not physical:
        out.append(cls.Global(None, None, max_duration=None))
    return out


def probe_layout(slug=True):
    from pulser.register.register_layout import RegisterLayout

    return RegisterLayout([[0.0, 0.0], [5.0, 0.0], [0.0, 5.0], [5.0, 5.0], [10.0, 0.0]],
                          slug="probe" if slug else None)


def probe_noise():
    import pulser

    return pulser.NoiseModel(runs=10, samples_per_run=2, temperature=30.0, p_false_pos=0.01,
                             state_prep_error=0.02, relaxation_rate=0.1)


def probe_devices(virtual: bool, channels=None) -> list:
    """Maximal, alternative and minimal probe devices."""
    from pulser.channels import DMM, Microwave, Raman, Rydberg
    from pulser.devices import Device, VirtualDevice

    phys = not virtual
    chans = channels or (probe_channels(Rydberg, phys)[0], probe_channels(Raman, phys)[1],
                         probe_channels(Microwave, phys)[1])
    ids = tuple(f"ch{i}" for i in range(len(chans)))
    min_chans = tuple(chans) if channels else tuple(ch for ch in chans if ch.basis != "XY")
    xy = 3700.0 if any(ch.basis == "XY" for ch in min_chans) else None
    dmm = probe_channels(DMM, phys)[0]
    full = dict(name="probe", dimensions=3, rydberg_level=70, min_atom_distance=2.5, max_atom_num=20,
                max_radial_distance=40, interaction_coeff_xy=3700.0, supports_slm_mask=True,
                max_layout_filling=0.6, optimal_layout_filling=0.4, min_layout_traps=2, max_layout_traps=200,
                max_sequence_duration=10000, max_runs=500, channel_ids=ids, channel_objects=tuple(chans),
                dmm_objects=(dmm, dmm), default_noise_model=probe_noise(), short_description="probe device")
    if virtual:
        a = VirtualDevice(requires_layout=True, reusable_channels=False, **full)
        b = VirtualDevice(**{**full, "supports_slm_mask": False, "dimensions": 2})
        c = VirtualDevice(name="min", dimensions=2, rydberg_level=60, channel_objects=min_chans,
                          interaction_coeff_xy=xy)
        return [a, b, c]
    full.update(pre_calibrated_layouts=(probe_layout(), probe_layout(False)), accepts_new_layouts=False,
                requires_layout=False)
    a = Device(**full)
    b = Device(**{**full, "supports_slm_mask": False, "dimensions": 2})
    c = Device(name="min", dimensions=2, rydberg_level=60, min_atom_distance=1.0, max_atom_num=10,
               max_radial_distance=30, interaction_coeff_xy=xy, channel_objects=min_chans)
    return [a, b, c]


# --------------------------------------------------------------------------------------
# decoder probing
# --------------------------------------------------------------------------------------
REQUIRED = object()
INCONCLUSIVE = object()


def _try_decode(decode, j, key):
    try:
        return decode(j)
    except KeyError as e:
        if e.args and e.args[0] == key:
            return REQUIRED
        return INCONCLUSIVE
    except Exception:  # noqa: BLE001  (constructor rejected the fallback for this particular base)
        return INCONCLUSIVE


def probe_device_decoder(virtual: bool):
    """What `_deserialize_device_object` does when a key is absent, for device keys, channel keys by
    class, EOM keys.  Returns dicts  key -> REQUIRED | ('value', model value) ."""
    from pulser.channels import DMM, Microwave, Raman, Rydberg
    from pulser.json.abstract_repr.deserializer import _deserialize_device_object

    res_dev: dict[str, object] = {}
    bases = probe_devices(virtual)
    jsons = [raw_json(d) for d in bases]
    all_keys = []
    for j in jsons:
        for k in j:
            if k not in all_keys:
                all_keys.append(k)
    names = device_field_names(type(bases[0]))
    for k in all_keys:
        outcome = INCONCLUSIVE
        for j in jsons:
            if k not in j:
                continue
            jj = copy.deepcopy(j)
            del jj[k]
            r = _try_decode(_deserialize_device_object, jj, k)
            if r is REQUIRED:
                outcome = REQUIRED
                break
            if r is not INCONCLUSIVE:
                if k in names:
                    outcome = ("value", dict(device_value(r)[1])[k])
                else:
                    outcome = ("ignored",)
                break
        if outcome is INCONCLUSIVE:
            raise TableError(f"decoder probe inconclusive for device key {k!r}")
        res_dev[k] = outcome

    # channels, by class, inside a virtual/physical device
    res_ch: dict[str, dict[str, object]] = {}
    res_eom: dict[str, object] = {}
    phys = not virtual
    rules = dispatch_rules()
    for cls in (Rydberg, Raman, Microwave, DMM):
        # a key the decoder uses to recognise the class is required by definition
        res: dict[str, object] = {k: REQUIRED for b, k, c in rules if k is not None and c == cls.__name__}
        for base in probe_channels(cls, phys):
            if cls is DMM:
                dev = probe_devices(virtual)[1]
                dev = dataclasses.replace(dev, dmm_objects=(base,), supports_slm_mask=False,
                                          default_noise_model=None)
                where = "dmm_objects"
            else:
                coeff = dict(interaction_coeff_xy=3700.0)
                dev = probe_devices(virtual, channels=(base,))[1]
                dev = dataclasses.replace(dev, default_noise_model=None, **coeff)
                where = "channels"
            j = raw_json(dev)
            chj = j[where][0]
            for k in list(chj):
                if k in res and res[k] is not INCONCLUSIVE:
                    continue
                jj = copy.deepcopy(j)
                del jj[where][0][k]
                r = _try_decode(_deserialize_device_object, jj, k)
                if r is REQUIRED:
                    res[k] = REQUIRED
                elif r is INCONCLUSIVE:
                    res.setdefault(k, INCONCLUSIVE)
                else:
                    obj = (r.dmm_objects if cls is DMM else r.channel_objects)[0]
                    if k == "id":
                        res[k] = ("ignored",)
                    elif k in {f.name for f in dataclasses.fields(cls)}:
                        res[k] = ("value", to_value(getattr(obj, k)))
                    else:
                        res[k] = ("ignored",)
            if cls is Rydberg and base.eom_config is not None:
                for k in list(chj["eom_config"]):
                    if k in res_eom and res_eom[k] is not INCONCLUSIVE:
                        continue
                    jj = copy.deepcopy(j)
                    del jj[where][0]["eom_config"][k]
                    r = _try_decode(_deserialize_device_object, jj, k)
                    if r is REQUIRED:
                        res_eom[k] = REQUIRED
                    elif r is INCONCLUSIVE:
                        res_eom.setdefault(k, INCONCLUSIVE)
                    else:
                        res_eom[k] = ("value", to_value(getattr(r.channel_objects[0].eom_config, k)))
        bad = [k for k, v in res.items() if v is INCONCLUSIVE]
        if bad and virtual:
            raise TableError(f"decoder probe inconclusive for {cls.__name__} keys {bad}")
        # a physical device rejects partially specified channels: those keys are settled by the
        # virtual-device probe (the channel decoder is the same function)
        res_ch[cls.__name__] = {k: v for k, v in res.items() if v is not INCONCLUSIVE}
    bad = [k for k, v in res_eom.items() if v is INCONCLUSIVE]
    if bad:
        raise TableError(f"decoder probe inconclusive for EOM keys {bad}")
    return res_dev, res_ch, res_eom


def probe_layout_decoder():
    from pulser.json.abstract_repr.deserializer import _deserialize_layout

    j = raw_json(probe_layout())
    res = {}
    for k in list(j):
        jj = copy.deepcopy(j)
        del jj[k]
        r = _try_decode(_deserialize_layout, jj, k)
        if r is REQUIRED:
            res[k] = REQUIRED
        elif r is INCONCLUSIVE:
            raise TableError(f"decoder probe inconclusive for layout key {k!r}")
        else:
            res[k] = ("value", dict(layout_value(r)[1])[k])
    return res


# --------------------------------------------------------------------------------------
# schemas
# --------------------------------------------------------------------------------------
def _schema(name: str) -> dict:
    p = common.REPO / "pulser-core" / "pulser" / "json" / "abstract_repr" / "schemas" / f"{name}-schema.json"
    return json.loads(p.read_text())


def _props_required(alts: list[dict]) -> tuple[list[str], list[str]]:
    if not alts:
        raise TableError("no matching schema definition")
    props = None
    req: list[str] = []
    for a in alts:
        ks = list(a.get("properties", {}))
        props = ks if props is None else [k for k in props if k in ks]
        for r in a.get("required", []):
            if r not in req:
                req.append(r)
    return sorted(props or []), sorted(req)


def schema_channel(basis: str, is_dmm: bool):
    d = _schema("device")["definitions"]
    if is_dmm:
        alts = [d["DMMChannel"], d["PhysicalDMMChannel"]]
    else:
        alts = [a for key in ("GenericChannel", "PhysicalChannel") for a in d[key]["anyOf"]
                if a["properties"].get("basis", {}).get("const") == basis
                and "bottom_detuning" not in a["properties"]]
    return _props_required(alts)


def schema_eom():
    d = _schema("device")["definitions"]
    alts = []
    for key in ("GenericChannel", "PhysicalChannel"):
        for a in d[key]["anyOf"]:
            eo = a["properties"].get("eom_config", {})
            for x in eo.get("anyOf", []):
                if x.get("type") == "object":
                    alts.append(x)
    return _props_required(alts)


def schema_device(virtual: bool):
    alts = [a for a in _schema("device")["definitions"]["Device"]["anyOf"]
            if a["properties"]["is_virtual"].get("const") is virtual]
    return _props_required(alts)


def schema_layout():
    d = _schema("layout")["definitions"]
    return _props_required([d["Layout2D"], d["Layout3D"]])


def schema_noise():
    return _props_required([_schema("noise")["definitions"]["NoiseModel"]])


# --------------------------------------------------------------------------------------
# tables
# --------------------------------------------------------------------------------------
@dataclasses.dataclass
class Tab:
    cls: str
    fields: list  # (name, init, default value | None)
    optional: list
    enc_skip: list
    enc_override: list  # (name, value)
    consts: list  # (key, value)
    dec_default: list  # (key, value)
    dec_required: list
    schema_props: list
    schema_required: list

    def names(self):
        return [f[0] for f in self.fields]

    def emitted(self):
        return [k for k, _ in self.consts] + [n for n in self.names() if n not in self.enc_skip]

    def always(self):
        return [k for k, _ in self.consts] + [n for n in self.names()
                                              if n not in self.enc_skip and n not in self.optional]

    def lean(self, name: str) -> str:
        fl = ",\n    ".join(
            "{ name := %s, init := %s, dflt := %s }" % (
                lean_str(n), "true" if i else "false", "none" if d is None else f"some ({lean_value(d)})")
            for n, i, d in self.fields)
        kv = lambda l: "[" + ", ".join(f"({lean_str(k)}, {lean_value(v)})" for k, v in l) + "]"  # noqa: E731
        return (f"def {name} : Tables where\n"
                f"  cls := {lean_str(self.cls)}\n"
                f"  fields := [\n    {fl}]\n"
                f"  optional := {lean_strs(self.optional)}\n"
                f"  encSkip := {lean_strs(self.enc_skip)}\n"
                f"  encOverride := {kv(self.enc_override)}\n"
                f"  consts := {kv(self.consts)}\n"
                f"  decDefault := {kv(self.dec_default)}\n"
                f"  decRequired := {lean_strs(self.dec_required)}\n"
                f"  schemaProps := {lean_strs(self.schema_props)}\n"
                f"  schemaRequired := {lean_strs(self.schema_required)}\n")


def _fields_of(cls, extra_first=()):
    from pulser.json.utils import get_dataclass_defaults

    fs = dataclasses.fields(cls)
    dfl = get_dataclass_defaults(fs)
    out = list(extra_first)
    for f in fs:
        out.append((f.name, bool(f.init), to_value(dfl[f.name]) if f.name in dfl else None))
    return out


def _split_probe(res: dict, names: list[str]):
    dd = [(k, v[1]) for k, v in res.items() if isinstance(v, tuple) and v[0] == "value" and k in names]
    rq = [k for k, v in res.items() if v is REQUIRED]
    return dd, rq


def build_tables() -> dict:
    """Extract every C17 table from the live code."""
    import pulser
    from pulser.channels import DMM, Microwave, Raman, Rydberg
    from pulser.channels.eom import RydbergEOM
    from pulser.devices import Device, VirtualDevice
    from pulser.devices import _device_datacls as ddc
    from pulser.json.abstract_repr import deserializer
    from pulser.register.register_layout import RegisterLayout
    import pulser.noise_model as nmod

    out: dict = {}
    # decoder probes: virtual devices accept every channel; physical ones only fully specified channels.
    dev_v, ch_v, eom_v = probe_device_decoder(True)
    dev_p, ch_p, eom_p = probe_device_decoder(False)
    if eom_v != eom_p:
        raise TableError("EOM decoder behaves differently inside Device and VirtualDevice")
    for cname in ch_v:
        for k in set(ch_v[cname]) | set(ch_p[cname]):
            a, b = ch_v[cname].get(k), ch_p[cname].get(k)
            if a is not None and b is not None and a != b:
                raise TableError(f"channel decoder for {cname}.{k} differs between Device and VirtualDevice")
    # ---- channels
    chans = {}
    for cls in (Rydberg, Raman, Microwave, DMM):
        inst = probe_channels(cls, True)[0]
        fields = _fields_of(cls, extra_first=[("id", True, None)])
        names = [f[0] for f in fields]
        opt = optional_tuples_of_encoder(cls)
        unknown = [o for o in opt if o not in names]
        if unknown:
            raise TableError(f"{cls.__name__}: OPTIONAL tuple names unknown fields {unknown}")
        probe = {**ch_p[cls.__name__], **ch_v[cls.__name__]}
        dd, rq = _split_probe(probe, names)
        props, req = schema_channel(inst.basis, cls is DMM)
        chans[cls.__name__] = Tab(cls.__name__, fields, opt, [], [], [("basis", vstr(inst.basis))], dd, rq,
                                  props, req)
    out["channels"] = chans
    # ---- EOM
    fields = _fields_of(RydbergEOM)
    dd, rq = _split_probe(eom_v, [f[0] for f in fields])
    sub, got = literal_keys(deserializer._deserialize_channel, {"data"})
    for k in sub:
        if k not in rq:
            raise TableError(f"_deserialize_channel reads data[{k!r}] but the probe says it is not required")
    props, req = schema_eom()
    out["eom"] = Tab("RydbergEOM", fields, optional_tuples_of_encoder(RydbergEOM), [], [], [], dd, rq, props, req)
    # ---- devices
    with_abstr = list(ddc.PARAMS_WITH_ABSTR_REPR)
    if sorted(with_abstr) != ["channel_ids", "channel_objects", "dmm_objects"]:
        raise TableError(f"PARAMS_WITH_ABSTR_REPR changed: {with_abstr}")
    devs = {}
    for cls, probe, virtual in ((Device, dev_p, False), (VirtualDevice, dev_v, True)):
        raw = {f[0]: f for f in _fields_of(cls)}
        fields = []
        for n in device_field_names(cls):
            if n == "channels":
                fields.append(("channels", True, None))
            else:
                fields.append(raw[n])
        names = [f[0] for f in fields]
        opt_src = optional_tuples_of_encoder(cls)
        opt = [o for o in opt_src if o in names and o not in with_abstr]
        override = []
        # `dmm_objects` is re-added after PARAMS_WITH_ABSTR_REPR were popped: always, or only when it is not
        # empty?  Ask the live encoder of this class.
        no_dmm = dataclasses.replace(probe_devices(virtual)[1], dmm_objects=())
        if "dmm_objects" in names and "dmm_objects" not in raw_json(no_dmm):
            opt.append("dmm_objects")
            override.append(("dmm_objects", vlist([])))
        # fields the encoder never writes: not in any probe encoding although set
        seen = set()
        for d in probe_devices(virtual):
            seen |= set(raw_json(d))
        skip = [n for n in names if n not in seen]
        dd, rq = _split_probe(probe, names)
        # a field that is never written always takes the decoder's fallback: read it off a decoded probe
        decoded = dict(device_value(deserializer._deserialize_device_object(
            raw_json(probe_devices(virtual)[0])))[1])
        dd += [(n, decoded[n]) for n in skip if n not in dict(dd)]
        consts = [("version", vstr("1")), ("pulser_version", vstr(pulser.__version__)),
                  ("is_virtual", vbool(virtual))]
        props, req = schema_device(virtual)
        devs[cls.__name__] = Tab(cls.__name__, fields, opt, skip, override, consts, dd, rq, props, req)
    out["devices"] = devs
    # ---- layout
    sig = inspect.signature(RegisterLayout.__init__)
    params = [p for p in sig.parameters.values() if p.name != "self"]
    if [p.name for p in params] != ["trap_coordinates", "slug"]:
        raise TableError(f"RegisterLayout.__init__ signature changed: {sig}")
    lay_fields = [("coordinates", True, None),
                  ("slug", True, to_value(params[1].default) if params[1].default is not inspect.Parameter.empty
                   else None)]
    lp = probe_layout_decoder()
    dd, rq = _split_probe(lp, ["coordinates", "slug"])
    sub, got = literal_keys(deserializer._deserialize_layout, {"layout_obj"})
    for k, d in got:
        if (k, to_value(d)) not in dd:
            raise TableError(f"_deserialize_layout .get({k!r}, {d!r}) disagrees with the probe")
    for k in sub:
        if k not in rq:
            raise TableError(f"_deserialize_layout reads layout_obj[{k!r}] but the probe says it is optional")
    # keys the layout encoder drops: those absent from the encoding of a layout built with defaults
    minimal = raw_json(probe_layout(False))
    maximal = raw_json(probe_layout(True))
    lay_opt = [k for k in maximal if k not in minimal]
    props, req = schema_layout()
    out["layout"] = Tab("RegisterLayout", lay_fields, lay_opt, [], [], [], dd, rq, props, req)
    # ---- dispatch
    out["dispatch"] = dispatch_rules()
    # ---- noise
    sig = inspect.signature(nmod.NoiseModel.__init__)
    nparams = [p for p in sig.parameters if p != "self"]
    try:
        from pulser_simulation import simconfig
        rename = dict(simconfig._DIFF_NOISE_PARAMS)
        sim_fields = [(f.name, None if f.default is dataclasses.MISSING else f.default)
                      for f in dataclasses.fields(simconfig.SimConfig)]
    except ImportError as e:  # pragma: no cover
        raise TableError("pulser_simulation cannot be imported") from e
    out["noise"] = dict(
        type_params=[(t, list(ps)) for t, ps in nmod._NOISE_TYPE_PARAMS.items()],
        param_type=list(nmod._PARAM_TO_NOISE_TYPE.items()),
        zeroed=sorted(nmod._POSITIVE | nmod._PROBABILITY_LIKE),
        params=nparams,
        defaults=[(p.name, to_value(p.default)) for p in sig.parameters.values() if p.name != "self"],
        rename=[(k, v) for k, v in rename.items()],
        fields=[f.name for f in dataclasses.fields(nmod.NoiseModel)],
        sim_fields=sim_fields,
        schema=schema_noise(),
    )
    # example records (probe objects), so that the non-vacuity examples of Properties/C17.lean follow the
    # live field lists
    ryd = probe_channels(Rydberg, True)[0]
    dmm_ = probe_channels(DMM, True)[0]
    out["examples"] = dict(
        exRydberg=channel_value(ryd, "ryd"), exDmm=channel_value(dmm_, "dmm_0"),
        exVirtualDevice=device_value(dataclasses.replace(probe_devices(True)[1], short_description="")),
        exDevice=device_value(dataclasses.replace(probe_devices(False)[1], short_description="")),
    )
    self_test(out)
    return out


def self_test(tabs: dict) -> None:
    """The key sets predicted by the tables equal what the live encoders write for the probe objects."""
    from pulser.channels import DMM, Microwave, Raman, Rydberg

    def check(tab: Tab, encodings: list[dict], what: str):
        union, inter = set(), None
        for e in encodings:
            union |= set(e)
            inter = set(e) if inter is None else inter & set(e)
        if union != set(tab.emitted()) or inter != set(tab.always()):
            raise TableError(
                f"{what}: tables say always={sorted(tab.always())} emitted={sorted(tab.emitted())}; the live "
                f"encoder wrote always={sorted(inter or [])} emitted={sorted(union)}")

    for cls in (Rydberg, Raman, Microwave, DMM):
        encs = [json.loads(json.dumps(ch._to_abstract_repr("x"), default=_enc_default))
                for ch in probe_channels(cls, False)]
        check(tabs["channels"][cls.__name__], encs, f"{cls.__name__}._to_abstract_repr")
    encs = [json.loads(json.dumps(e._to_abstract_repr(), default=_enc_default))
            for e in (probe_eom(True), probe_eom(False))]
    check(tabs["eom"], encs, "RydbergEOM._to_abstract_repr")
    for name, virtual in (("Device", False), ("VirtualDevice", True)):
        encs = [raw_json(d) for d in probe_devices(virtual)]
        encs.append(raw_json(dataclasses.replace(probe_devices(virtual)[1], dmm_objects=())))
        check(tabs["devices"][name], encs, f"{name}._to_abstract_repr")
    encs = [raw_json(probe_layout(s)) for s in (True, False)]
    check(tabs["layout"], encs, "RegisterLayout._to_abstract_repr")


def raw_json(obj):
    """The abstract representation *without* the library's schema validation (the tables must be
    extractable from a source whose encodings no longer validate: that is what `TablesOk` then reports)."""
    from pulser.json.abstract_repr.serializer import AbstractReprEncoder

    return json.loads(json.dumps(obj, cls=AbstractReprEncoder))


def _enc_default(o):
    from pulser.json.abstract_repr.serializer import AbstractReprEncoder

    return AbstractReprEncoder().default(o)


# --------------------------------------------------------------------------------------
# Lean file
# --------------------------------------------------------------------------------------
GENERATED = common.LEAN_DIR / "PulserModel" / "Generated" / "Fields.lean"

HEADER = """/-
  GENERATED by harness/tables_c17.py from the live code under test — do not edit.
  Regenerated at the start of every `./check C17` run (written only when the content changes).
-/
import PulserModel.Codec
namespace Pulser
namespace Codec
namespace Generated

"""


def _lean_name(cls_name: str) -> str:
    return cls_name.lower() if cls_name.isupper() else cls_name[0].lower() + cls_name[1:]


def render(tabs: dict) -> str:
    s = [HEADER]
    for cname, tab in tabs["channels"].items():
        s.append(tab.lean(_lean_name(cname)))
        s.append("\n")
    s.append(tabs["eom"].lean("eom"))
    s.append("\n")
    s.append(tabs["devices"]["Device"].lean("device"))
    s.append("\n")
    s.append(tabs["devices"]["VirtualDevice"].lean("virtualDevice"))
    s.append("\n")
    s.append(tabs["layout"].lean("layout"))
    s.append("\n")
    rules = ",\n    ".join(
        "{ basis := %s, key := %s, cls := %s }" % (lean_str(b), "none" if k is None else f"some {lean_str(k)}",
                                                    lean_str(c)) for b, k, c in tabs["dispatch"])
    s.append(f"def dispatch : List DispatchRule := [\n    {rules}]\n\n")
    s.append("def channels : ChannelTables where\n"
             "  classes := [" + ", ".join(_lean_name(c) for c in tabs["channels"]) + "]\n"
             "  eom := eom\n  dispatch := dispatch\n\n")
    s.append("def devices : DeviceTables where\n  physical := device\n  virtual := virtualDevice\n"
             "  layout := layout\n  chans := channels\n\n")
    n = tabs["noise"]
    pair = lambda l: "[" + ", ".join(f"({lean_str(a)}, {lean_str(b)})" for a, b in l) + "]"  # noqa: E731
    tp = "[" + ", ".join(f"({lean_str(t)}, {lean_strs(ps)})" for t, ps in n["type_params"]) + "]"
    sf = "[" + ", ".join(
        f"({lean_str(k)}, {lean_value(to_value(list(v) if isinstance(v, tuple) else v))})"
        for k, v in n["sim_fields"]) + "]"
    s.append("def noise : NoiseTables where\n"
             f"  typeParams := {tp}\n"
             f"  paramType := {pair(n['param_type'])}\n"
             f"  zeroed := {lean_strs(n['zeroed'])}\n"
             f"  params := {lean_strs(n['params'])}\n"
             f"  defaults := [" + ", ".join(f"({lean_str(k)}, {lean_value(v)})" for k, v in n["defaults"]) + "]\n"
             f"  simRename := {pair(n['rename'])}\n\n")
    s.append(f"/-- `dataclasses.fields(NoiseModel)`. -/\ndef noiseFields : List String := {lean_strs(n['fields'])}\n\n")
    s.append(f"/-- `dataclasses.fields(SimConfig)` with their defaults. -/\n"
             f"def simFields : List (String × Value) := {sf}\n\n")
    s.append(f"def noiseSchemaProps : List String := {lean_strs(n['schema'][0])}\n")
    s.append(f"def noiseSchemaRequired : List String := {lean_strs(n['schema'][1])}\n\n")
    s.append("/-! Example records (the translator's probe objects) for the non-vacuity examples. -/\n")
    for name, v in tabs["examples"].items():
        s.append(f"def {name} : Value := {lean_value(v)}\n\n")
    s.append("end Generated\nend Codec\nend Pulser\n")
    return "".join(s)


def regenerate() -> tuple[dict, bool]:
    """Rebuild the tables and rewrite Fields.lean when its content changes. -> (tables, changed)"""
    try:
        with warnings.catch_warnings():
            warnings.simplefilter("ignore")
            tabs = build_tables()
    except TableError:
        raise
    except Exception as e:  # noqa: BLE001  (a probe object cannot be built / encoded / decoded any more)
        raise TableError(f"table extraction failed with {type(e).__name__}: {str(e)[:400]}") from e
    text = render(tabs)
    GENERATED.parent.mkdir(parents=True, exist_ok=True)
    old = GENERATED.read_text() if GENERATED.exists() else None
    if old != text:
        tmp = GENERATED.with_suffix(".lean.tmp")
        tmp.write_text(text)
        tmp.replace(GENERATED)
        return tabs, True
    return tabs, False


if __name__ == "__main__":  # manual use: python harness/tables_c17.py
    common.import_guard()
    _, ch = regenerate()
    print("changed" if ch else "unchanged", GENERATED)
