"""Shared machinery of the C08 (build == direct construction) and C04 (serialisation
round-trip) checks: an op language with *expression* arguments, its application to real
`Sequence` objects (template mode: expressions become `pulser.parametrized` objects;
direct mode: expressions are evaluated by an evaluator that does not use
`pulser.parametrized`), program generators, canonical snapshots and a tolerant differ.

Op language = the dict ops of harness/realcode.py, extended:
  * every numeric position may hold an expression instead of a number:
        {"v": name, "i": k}              item k of variable `name`
        {"V": name}                      the whole (array) variable
        {"b": "add|sub|mul|div", "l": x, "r": y}
        {"u": "neg|abs|sin|cos|sqrt|exp|tanh|...", "a": x}
  * extra op kinds: targeti (target_index), shifti (phase_shift_index), slm
    (config_slm_mask), magfield (set_magnetic_field)
  * pulses: {"amp": wf, "det": wf, "phase", "post"}            Pulse(...)
            {"kind": "constdet", "amp": wf, "det": x, ...}     Pulse.ConstantDetuning
            {"kind": "constamp", "amp": x, "det": wf, ...}     Pulse.ConstantAmplitude
            {"kind": "constpulse", "dur", "amp", "det", ...}   Pulse.ConstantPulse
            {"kind": "arbphase", "amp": wf, "phase_wf": wf, "post"}  Pulse.ArbitraryPhase
  * waveforms: const ramp blackman blackman_max kaiser kaiser_max custom interp composite
"""
from __future__ import annotations

import copy
import json
import math
import random
import warnings
from fractions import Fraction

import numpy as np

import pulser
from pulser import Pulse, Register, Sequence
from pulser.channels import DMM
from pulser.register.mappable_reg import MappableRegister
from pulser.register.register_layout import RegisterLayout
from pulser.waveforms import (
    BlackmanWaveform,
    CompositeWaveform,
    ConstantWaveform,
    CustomWaveform,
    InterpolatedWaveform,
    KaiserWaveform,
    RampWaveform,
)

import realcode
from realcode import Dev, RealSeq, classify, real_name, wire_name

TWO_PI = 2 * math.pi

class Timeout(Exception):
    """A call into the library did not return (e.g. a replay loop that feeds itself)."""


class time_limit:
    """`with time_limit(5): ...` raises Timeout after 5 s (SIGALRM, main thread only)."""

    def __init__(self, seconds: int):
        self.seconds = seconds

    def __enter__(self):
        import signal

        def handler(signum, frame):
            raise Timeout(f"no return after {self.seconds} s")

        self.old = signal.signal(signal.SIGALRM, handler)
        signal.alarm(self.seconds)

    def __exit__(self, *a):
        import signal

        signal.alarm(0)
        signal.signal(signal.SIGALRM, self.old)
        return False


def forbidden_in_closure(modules: list) -> list:
    """`common.lean_forbidden_tokens()` restricted to the import closure of `modules`
    (other contributors' files in progress must not make this check un-runnable)."""
    import re

    import common

    seen, todo = set(), list(modules)
    while todo:
        m = todo.pop()
        if m in seen:
            continue
        f = common.LEAN_DIR / (m.replace(".", "/") + ".lean")
        if not f.exists():
            continue
        seen.add(m)
        for mm in re.findall(r"^import\s+(\S+)", f.read_text(), re.M):
            todo.append(mm)
    files = {m.replace(".", "/") + ".lean" for m in seen}
    return [h for h in common.lean_forbidden_tokens() if h.split(":")[0] in files]


# --------------------------------------------------------------------------------------
# expressions
# --------------------------------------------------------------------------------------
UNARY_NP = {
    "round": lambda x: np.round(x), "pyround": lambda x: round(x),
    "neg": lambda x: -x, "abs": lambda x: abs(x), "sin": np.sin, "cos": np.cos, "sqrt": np.sqrt,
    "exp": np.exp, "tanh": np.tanh, "tan": np.tan, "log": np.log, "log2": np.log2,
    "floor": np.floor, "ceil": np.ceil,
}
# the independent evaluator (python scalars + math)
UNARY_PY = {
    "round": lambda x: float(np.round(x)), "pyround": lambda x: float(np.round(x)),
    "neg": lambda x: -x, "abs": lambda x: abs(x), "sin": math.sin, "cos": math.cos, "sqrt": math.sqrt,
    "exp": math.exp, "tanh": math.tanh, "tan": math.tan, "log": math.log, "log2": math.log2,
    "floor": lambda x: float(math.floor(x)), "ceil": lambda x: float(math.ceil(x)),
}
BINARY = {
    "add": lambda a, b: a + b, "sub": lambda a, b: a - b, "mul": lambda a, b: a * b,
    "div": lambda a, b: a / b, "pow": lambda a, b: a ** b, "mod": lambda a, b: a % b,
    "floordiv": lambda a, b: a // b,
}


def is_expr(x) -> bool:
    return isinstance(x, dict) and ("v" in x or "V" in x or "b" in x or "u" in x)


def has_expr(x) -> bool:
    """Does a JSON value contain an expression anywhere?"""
    if is_expr(x):
        return True
    if isinstance(x, dict):
        return any(has_expr(v) for v in x.values())
    if isinstance(x, (list, tuple)):
        return any(has_expr(v) for v in x)
    return False


def expr_vars(x, acc=None) -> set:
    acc = set() if acc is None else acc
    if isinstance(x, dict):
        if "v" in x:
            acc.add(x["v"])
        elif "V" in x:
            acc.add(x["V"])
        else:
            for v in x.values():
                expr_vars(v, acc)
    elif isinstance(x, (list, tuple)):
        for v in x:
            expr_vars(v, acc)
    return acc


def to_param(x, vars_: dict):
    """Expression -> pulser.parametrized object (numbers pass through)."""
    if not is_expr(x):
        return x
    if "v" in x:
        return vars_[x["v"]][x["i"]]
    if "V" in x:
        v = vars_[x["V"]]
        if "s" in x:                                # a slice of an array variable: v[a:b]
            return v[x["s"][0]:x["s"][1]]
        return v[0] if isinstance(v, list) else v   # (a scalar declaration is kept as [item])
    if "b" in x:
        return BINARY[x["b"]](to_param(x["l"], vars_), to_param(x["r"], vars_))
    return UNARY_NP[x["u"]](to_param(x["a"], vars_))


def evaluate(x, assign: dict, decl: dict):
    """Independent evaluation (python ints/floats; int variables stay ints)."""
    if not is_expr(x):
        return x
    if "v" in x:
        v = assign[x["v"]][x["i"]]
        return int(v) if decl[x["v"]]["dtype"] == "int" else float(v)
    if "V" in x:
        cast = int if decl[x["V"]]["dtype"] == "int" else float
        if "s" in x:
            return [cast(v) for v in assign[x["V"]][x["s"][0]:x["s"][1]]]
        if decl[x["V"]].get("scalar"):
            return cast(assign[x["V"]][0])
        return [cast(v) for v in assign[x["V"]]]
    if "b" in x:
        return BINARY[x["b"]](evaluate(x["l"], assign, decl), evaluate(x["r"], assign, decl))
    a = evaluate(x["a"], assign, decl)
    if x["u"] in ("neg", "abs"):
        return UNARY_PY[x["u"]](a)
    # transcendental functions: numpy's scalar loops (libm may differ from them by an ulp,
    # which matters when the scheduler compares two phases for equality)
    return float(UNARY_NP[x["u"]](np.float64(a)))


def expr_str(x) -> str:
    if not is_expr(x):
        return repr(x)
    if "v" in x:
        return f"{x['v']}[{x['i']}]"
    if "V" in x:
        return x["V"] + (f"[{x['s'][0]}:{x['s'][1]}]" if "s" in x else "")
    if "b" in x:
        return f"{x['b']}({expr_str(x['l'])},{expr_str(x['r'])})"
    return f"{x['u']}({expr_str(x['a'])})"


# --------------------------------------------------------------------------------------
# context: device + register (concrete or mappable)
# --------------------------------------------------------------------------------------
class Ctx:
    """A device (lattice spec -> VirtualDevice, or a given device), the qubit ids in declared
    order, and the register: concrete, concrete-on-a-layout, or mappable."""

    # declared in THIS order: not the lexicographic one
    CUSTOM_IDS = ["zed", "b", "yak", "a", "x1", "m", "c", "w", "k", "e", "u", "g", "s", "i", "q", "d"]

    def __init__(self, spec: dict, mappable: bool = False, extra_ids: int = 0, extra_traps: int = 2,
                 device=None, register=None, chan_ids=None, dmm_ids=None, with_layout: bool = False,
                 id_style: str = "default"):
        self.spec = spec
        self.mappable = mappable
        self.with_layout = with_layout
        self.direct_n = None     # number of qubits of the register of a direct construction (set by its maker)
        if device is None:
            self.dev = Dev(spec)
            self.device = self.dev.device
            self.chan_ids = list(self.dev.chan_ids)
            self.dmm_ids = [f"dmm_{i}" for i in range(len(self.dev.dmm_objs))]
            self.nq = self.dev.nq
        else:  # a given (built-in / custom) device
            self.dev = None
            self.device = device
            self.chan_ids = list(chan_ids if chan_ids is not None else device.channels)
            self.dmm_ids = list(dmm_ids if dmm_ids is not None else device.dmm_channels)
            self.nq = spec["nq"]
        nids = self.nq + (extra_ids if mappable else 0)
        # "default": q0, q1, ... (from 11 ids on, q10 sorts before q2); "custom": unsorted names
        self.qids = list(self.CUSTOM_IDS[:nids]) if id_style == "custom" else [f"q{i}" for i in range(nids)]
        # (a device accepts a layout filled to at most `max_layout_filling` = 0.5 by default)
        ntraps = 2 * len(self.qids) + extra_traps if (mappable or with_layout) else len(self.qids)
        self.coords = [(6.0 * (i % len(self.qids)), 7.0 * (i // len(self.qids))) for i in range(ntraps)]
        self.layout = None
        self.register = register
        if mappable or (with_layout and register is None):
            self.layout = RegisterLayout(self.coords)
            # trap ids are assigned by the layout (sorted coordinates): look them up
            # trap ids by the DOCUMENTED rule (coordinates rounded to 6 decimals, sorted left to right then
            # bottom to top) -- computed here, not read from the layout under test
            self.sorted_coords = sorted(tuple(round(float(x), 6) + 0.0 for x in c) for c in self.coords)
            self.trap_of_coord = {c: i for i, c in enumerate(self.sorted_coords)}
        if mappable:
            self.mreg = MappableRegister(self.layout, *self.qids)
        elif register is None:
            if with_layout:
                traps = [self.trap_of_coord[tuple(round(float(x), 6) + 0.0 for x in self.coords[i])]
                         for i in range(len(self.qids))]
                self.register = self.layout.define_register(*traps, qubit_ids=self.qids)
            else:
                self.register = Register({q: self.coords[i] for i, q in enumerate(self.qids)})

    def new_template(self) -> Sequence:
        with warnings.catch_warnings():
            warnings.simplefilter("ignore")
            return Sequence(self.mreg if self.mappable else self.register, self.device)

    def trap_coords(self, trap: int):
        return tuple(self.sorted_coords[trap])

    def detmap(self, weights: list, order: list | None = None):
        """The detuning map of a `detmap` op: weights per declared qubit index, put on the
        default positions of those qubits (trap coordinates i for qubit i).  `order`: the
        order in which the traps are handed to `DetuningMap` (not the sorted one)."""
        w = {i: weights[i] for i in range(min(len(weights), self.nq))}
        if order is not None:
            from pulser.register.weight_maps import DetuningMap

            idx = [i for i in order if i in w] + [i for i in w if i not in order]
            return DetuningMap(trap_coordinates=[self.coords[i] for i in idx], weights=[w[i] for i in idx])
        if self.mappable or self.with_layout:
            # (directly: RegisterLayout.define_detuning_map refuses a single trap, finding F13d)
            from pulser.register.weight_maps import DetuningMap

            return DetuningMap(trap_coordinates=[self.coords[i] for i in w], weights=[w[i] for i in w])
        reg = self.register
        ids = list(reg.qubit_ids)
        return reg.define_detuning_map({ids[i]: x for i, x in w.items()})


def spec_of_device(device, nq: int) -> dict:
    """The lattice-style description gen.HistoryGen needs, read off a real device."""
    def chan(ch, is_dmm=False):
        kind = "dmm" if is_dmm else {"ground-rydberg": "rydberg", "digital": "raman", "XY": "microwave"}[ch.basis]
        c = dict(kind=kind, local=ch.addressing == "Local", clock_period=ch.clock_period,
                 min_duration=ch.min_duration, max_duration=ch.max_duration, mod_bandwidth=ch.mod_bandwidth)
        if is_dmm:
            c["bottom_detuning"] = ch.bottom_detuning
            c["total_bottom_detuning"] = ch.total_bottom_detuning
            return c
        c.update(max_amp=ch.max_amp, max_abs_detuning=ch.max_abs_detuning, min_avg_amp=ch.min_avg_amp,
                 custom_phase_jump_time=None)
        if c["local"]:
            c.update(min_retarget_interval=ch.min_retarget_interval or 0, fixed_retarget_t=ch.fixed_retarget_t or 0,
                     max_targets=ch.max_targets)
        if ch.eom_config is not None:
            c["eom"] = dict(max_limiting_amp=float(ch.eom_config.max_limiting_amp))
        return c

    return dict(channels=[chan(c) for c in device.channels.values()],
                dmms=[chan(c, True) for c in device.dmm_channels.values()],
                nq=nq, reusable=bool(device.reusable_channels), max_seq=device.max_sequence_duration)


# --------------------------------------------------------------------------------------
# building real objects from op dicts
# --------------------------------------------------------------------------------------
KW_STYLE = False   # build waveforms / pulses with keyword arguments only (set per program)


def make_wf(w, mk):
    k = w[0]
    kws = KW_STYLE
    if k == "const":
        return ConstantWaveform(duration=mk(w[1]), value=mk(w[2])) if kws else ConstantWaveform(mk(w[1]), mk(w[2]))
    if k == "ramp":
        if kws:
            return RampWaveform(duration=mk(w[1]), start=mk(w[2]), stop=mk(w[3]))
        return RampWaveform(mk(w[1]), mk(w[2]), mk(w[3]))
    if k == "blackman":
        return BlackmanWaveform(duration=mk(w[1]), area=mk(w[2])) if kws else BlackmanWaveform(mk(w[1]), mk(w[2]))
    if k == "blackman_max":
        if kws:
            return BlackmanWaveform.from_max_val(max_val=mk(w[1]), area=mk(w[2]))
        return BlackmanWaveform.from_max_val(mk(w[1]), mk(w[2]))
    if k == "kaiser":
        if kws:
            kw = dict(duration=mk(w[1]), area=mk(w[2]))
            if len(w) > 3:
                kw["beta"] = mk(w[3])
            return KaiserWaveform(**kw)
        if len(w) > 3:
            return KaiserWaveform(mk(w[1]), mk(w[2]), mk(w[3]))
        return KaiserWaveform(mk(w[1]), mk(w[2]))
    if k == "kaiser_max":
        if kws:
            kw = dict(max_val=mk(w[1]), area=mk(w[2]))
            if len(w) > 3:
                kw["beta"] = mk(w[3])
            return KaiserWaveform.from_max_val(**kw)
        if len(w) > 3:
            return KaiserWaveform.from_max_val(mk(w[1]), mk(w[2]), mk(w[3]))
        return KaiserWaveform.from_max_val(mk(w[1]), mk(w[2]))
    if k == "custom":
        s = w[1]
        samples = mk(s) if is_expr(s) else [mk(x) for x in s] if has_expr(s) else s
        return CustomWaveform(samples=samples) if kws else CustomWaveform(samples)
    if k == "interp":
        vals = w[2]
        vals = mk(vals) if is_expr(vals) else vals
        times = w[3] if len(w) > 3 else None
        interp = w[4] if len(w) > 4 else None
        if len(w) > 5 and w[5] == "pos" and interp is not None:
            # times and interpolator given POSITIONALLY
            return InterpolatedWaveform(mk(w[1]), vals, times, interp)
        kw = {}
        if times is not None:
            kw["times"] = times
        if interp is not None:
            kw["interpolator"] = interp
        if kws:
            return InterpolatedWaveform(duration=mk(w[1]), values=vals, **kw)
        return InterpolatedWaveform(mk(w[1]), vals, **kw)
    if k == "composite":
        return CompositeWaveform(*[make_wf(x, mk) for x in w[1]])
    raise ValueError(k)


def make_pulse(p: dict, mk):
    kind = p.get("kind", "pulse")
    post = mk(p.get("post", 0.0))
    kws = KW_STYLE
    if kind == "pulse":
        if kws:
            return Pulse(amplitude=make_wf(p["amp"], mk), detuning=make_wf(p["det"], mk),
                         phase=mk(p.get("phase", 0.0)), post_phase_shift=post)
        return Pulse(make_wf(p["amp"], mk), make_wf(p["det"], mk), mk(p.get("phase", 0.0)), post)
    if kind == "constdet":
        if kws:
            return Pulse.ConstantDetuning(amplitude=make_wf(p["amp"], mk), detuning=mk(p["det"]),
                                          phase=mk(p.get("phase", 0.0)), post_phase_shift=post)
        return Pulse.ConstantDetuning(make_wf(p["amp"], mk), mk(p["det"]), mk(p.get("phase", 0.0)), post)
    if kind == "constamp":
        if kws:
            return Pulse.ConstantAmplitude(amplitude=mk(p["amp"]), detuning=make_wf(p["det"], mk),
                                           phase=mk(p.get("phase", 0.0)), post_phase_shift=post)
        return Pulse.ConstantAmplitude(mk(p["amp"]), make_wf(p["det"], mk), mk(p.get("phase", 0.0)), post)
    if kind == "constpulse":
        if kws:
            return Pulse.ConstantPulse(duration=mk(p["dur"]), amplitude=mk(p["amp"]), detuning=mk(p["det"]),
                                       phase=mk(p.get("phase", 0.0)), post_phase_shift=post)
        return Pulse.ConstantPulse(mk(p["dur"]), mk(p["amp"]), mk(p["det"]), mk(p.get("phase", 0.0)), post)
    if kind == "arbphase":
        if kws:
            return Pulse.ArbitraryPhase(amplitude=make_wf(p["amp"], mk), phase=make_wf(p["phase_wf"], mk),
                                        post_phase_shift=post)
        return Pulse.ArbitraryPhase(make_wf(p["amp"], mk), make_wf(p["phase_wf"], mk), post)
    raise ValueError(kind)


def qid_list(ctx: Ctx, idx) -> list:
    return [ctx.qids[i] if 0 <= i < len(ctx.qids) else f"bogus{i}" for i in idx]


def _ids_of_indices(ctx: Ctx, indices, n_register: int) -> list:
    """Index -> qubit id against the DECLARED order (ours), as the documentation of target_index /
    phase_shift_index says; an index outside the register is refused like the library does."""
    out = []
    for i in indices:
        i = int(i)
        if not -n_register <= i < n_register:
            raise IndexError("Indices must exist for the register.")
        out.append(ctx.qids[:n_register][i])
    return out


def apply_op(seq: Sequence, ctx: Ctx, op: dict, mk, omit_defaults: bool = False, resolve_index: bool = False):
    """Run one op on `seq`; numeric arguments go through `mk`.  Raises what the API raises.
    `omit_defaults`: do not pass optional arguments whose value is the default.
    `resolve_index` (direct constructions with evaluated values only): index-based targets are turned
    into qubit ids HERE, from the declared order, and issued through the id-based calls."""
    k = op["k"]
    od = omit_defaults
    if resolve_index and k in ("targeti", "shifti") and not seq.is_parametrized():
        nreg = len(seq._register.qubit_ids) if ctx.direct_n is None else ctx.direct_n
        if k == "targeti":
            qs = op["qs"]
            vals = mk(qs) if (is_expr(qs) or not isinstance(qs, list)) else [mk(x) for x in qs]
            vals = list(vals) if isinstance(vals, (list, tuple)) else [vals]
            if vals:
                seq.target(_ids_of_indices(ctx, vals, nreg), real_name(op["ch"]))
                return
        else:
            vals = [mk(x) for x in op["qs"]]
            if vals:
                seq.phase_shift(mk(op["phi"]), *_ids_of_indices(ctx, vals, nreg), basis=op["basis"])
                return

    def opt(kwargs: dict, name: str, value, default):
        if not (od and not is_expr(value) and value == default):
            kwargs[name] = value
        return kwargs

    if k == "declare":
        init = op.get("init")
        cid = ctx.chan_ids[op["id"]] if op["id"] < len(ctx.chan_ids) else "nope"
        if init is None and od:
            seq.declare_channel(real_name(op["ch"]), cid)
        else:
            seq.declare_channel(real_name(op["ch"]), cid,
                                initial_target=None if init is None else qid_list(ctx, init))
    elif k == "detmap":
        dmm = ctx.dmm_ids[op["id"]] if op["id"] < len(ctx.dmm_ids) else f"dmm_{op['id']}"
        seq.config_detuning_map(ctx.detmap(op["weights"], op.get("order")), dmm)
    elif k == "slm":
        kw = opt({}, "dmm_id", op.get("dmm", "dmm_0"), "dmm_0")
        seq.config_slm_mask(qid_list(ctx, op["qs"]), **kw)
    elif k == "magfield":
        seq.set_magnetic_field(*op["field"])
    elif k == "target":
        seq.target(qid_list(ctx, op["qs"]), real_name(op["ch"]))
    elif k == "targeti":
        qs = op["qs"]
        if is_expr(qs):
            arg = mk(qs)
        elif isinstance(qs, list):
            arg = [mk(x) for x in qs]
        else:
            arg = mk(qs)
        seq.target_index(arg, real_name(op["ch"]))
    elif k == "add":
        kw = opt({}, "protocol", op.get("proto", "min-delay"), "min-delay")
        seq.add(make_pulse(op["pulse"], mk), real_name(op["ch"]), **kw)
    elif k == "adddmm":
        kw = opt({}, "protocol", op.get("proto", "no-delay"), "no-delay")
        seq.add_dmm_detuning(make_wf(op["wf"], mk), real_name(op["ch"]), **kw)
    elif k == "addeom":
        kw = {}
        opt(kw, "post_phase_shift", mk(op.get("post", 0.0)), 0.0)
        opt(kw, "protocol", op.get("proto", "min-delay"), "min-delay")
        opt(kw, "correct_phase_drift", op.get("corr", False), False)
        seq.add_eom_pulse(real_name(op["ch"]), mk(op["dur"]), mk(op["phase"]), **kw)
    elif k == "delay":
        kw = opt({}, "at_rest", op.get("at_rest", False), False)
        seq.delay(mk(op["d"]), real_name(op["ch"]), **kw)
    elif k == "align":
        kw = opt({}, "at_rest", op.get("at_rest", True), True)
        seq.align(*[real_name(c) for c in op["chs"]], **kw)
    elif k == "shift":
        kw = opt({}, "basis", op["basis"], "digital")
        seq.phase_shift(mk(op["phi"]), *qid_list(ctx, op["qs"]), **kw)
    elif k == "shifti":
        kw = opt({}, "basis", op["basis"], "digital")
        seq.phase_shift_index(mk(op["phi"]), *[mk(x) for x in op["qs"]], **kw)
    elif k in ("eomon", "eommod"):
        kw = {}
        opt(kw, "optimal_detuning_off", mk(op.get("optimal", 0.0)), 0.0)
        opt(kw, "correct_phase_drift", op.get("corr", False), False)
        f = seq.enable_eom_mode if k == "eomon" else seq.modify_eom_setpoint
        f(real_name(op["ch"]), mk(op["amp"]), mk(op["det_on"]), **kw)
    elif k == "eomoff":
        kw = opt({}, "correct_phase_drift", op.get("corr", False), False)
        seq.disable_eom_mode(real_name(op["ch"]), **kw)
    elif k == "measure":
        if od and op["basis"] == "ground-rydberg":
            seq.measure()
        else:
            seq.measure(op["basis"])
    else:
        raise realcode.InfraError(f"unknown op {k}")


def try_op(seq, ctx, op, mk, omit_defaults=False, resolve_index=False):
    """('ok', None) | ('err', class, exception)."""
    try:
        with warnings.catch_warnings():
            warnings.simplefilter("ignore")
            apply_op(seq, ctx, op, mk, omit_defaults, resolve_index)
        return ("ok", None, None)
    except realcode.InfraError:
        raise
    except Exception as e:  # noqa: BLE001
        return ("err", classify(e), e)


# --------------------------------------------------------------------------------------
# snapshots and comparison
# --------------------------------------------------------------------------------------
class _Shim:
    pass


def _wf_digest(wf) -> list:
    """(length, sum, sum of squares, max, min, first, last, weighted sum) of the raw samples of a waveform."""
    a = np.asarray(wf.samples.as_array(detach=True) if hasattr(wf.samples, "as_array") else wf.samples, dtype=float)
    if a.size == 0:
        return [0]
    w = np.arange(1, a.size + 1, dtype=float)
    return [int(a.size), float(a.sum()), float((a * a).sum()), float(a.max()), float(a.min()), float(a[0]),
            float(a[-1]), float((a * w).sum() / a.size)]


def canon_obj(x, skip=("short_description",)):
    """Field-by-field view of a (data-class) object, independent of its own __eq__ / __hash__."""
    import dataclasses
    import enum

    if hasattr(x, "coords") and hasattr(x, "slug") and hasattr(x, "number_of_traps"):
        # a RegisterLayout: coordinates + slug are what the representation keeps (the special lattice
        # classes are written as plain layouts by design)
        return {"__class__": "RegisterLayout", "coords": np.asarray(x.coords, dtype=float).round(9).tolist(),
                "slug": x.slug}
    if dataclasses.is_dataclass(x) and not isinstance(x, type):
        return {"__class__": type(x).__name__,
                **{f.name: canon_obj(getattr(x, f.name), skip) for f in dataclasses.fields(x)
                   if f.init and f.name not in skip}}
    if isinstance(x, enum.Enum):
        return x.name
    if isinstance(x, dict):
        return {str(k): canon_obj(v, skip) for k, v in x.items()}
    if isinstance(x, (list, tuple)):
        return [canon_obj(v, skip) for v in x]
    if isinstance(x, (set, frozenset)):
        return sorted(str(v) for v in x)
    if isinstance(x, np.ndarray):
        return x.tolist()
    if isinstance(x, (np.integer, np.floating)):
        return x.item()
    if x is None or isinstance(x, (bool, int, float, str)):
        return x
    return repr(x)


_SCHEMA_VALIDATOR = {}


def schema_errors(doc: str) -> list:
    """Validate a sequence document against the schema FILES of the tree with our own validator
    (not through pulser.json.abstract_repr.validation)."""
    import jsonschema
    from referencing import Registry, Resource

    import common

    if "v" not in _SCHEMA_VALIDATOR:
        d = common.REPO / "pulser-core" / "pulser" / "json" / "abstract_repr" / "schemas"
        load = lambda n: json.loads((d / n).read_text())  # noqa: E731
        reg = Registry().with_resources([(n, Resource.from_contents(load(n))) for n in
                                         ("device-schema.json", "layout-schema.json", "register-schema.json",
                                          "noise-schema.json")])
        _SCHEMA_VALIDATOR["v"] = jsonschema.Draft7Validator(load("sequence-schema.json"), registry=reg)
    return [e.message[:200] for e in list(_SCHEMA_VALIDATOR["v"].iter_errors(json.loads(doc)))[:2]]


def seq_snapshot(seq: Sequence, ctx: Ctx, qids=None) -> dict:
    """`RealSeq.snapshot` of any sequence on ctx's device; channels keyed by name; phase
    references restricted to the qubits `qids` (default: the register's)."""
    if qids is None:
        qids = list(seq._register.qubit_ids)
    shim = _Shim()
    shim.qids = list(qids)
    shim.nq = len(qids)
    shim.dmm_objs = [None] * len(ctx.dmm_ids)
    shim.chan_ids = ctx.chan_ids
    r = RealSeq.__new__(RealSeq)
    r.dev = shim
    r.seq = seq
    # slots may mention qubits outside `qids` (mappable template): index them after the known ones
    allq = list(qids) + [q for q in seq._register.qubit_ids if q not in qids]
    for sch in seq._schedule.values():       # (ids that should not be there any more show up as extra indices)
        for sl in sch.slots:
            for q in sl.targets:
                if q not in allq:
                    allq.append(q)
    shim.qids = allq
    snap = r.snapshot()
    shim.qids = list(qids)
    snap["refs"] = {b: l[: len(qids)] for b, l in snap["refs"].items()}
    snap["chans"] = {c["name"]: c for c in snap["chans"]}
    for name, sch in seq._schedule.items():
        dm = getattr(sch, "detuning_map", None)
        if dm is not None:
            coords = np.asarray(dm.trap_coordinates, dtype=float).round(6).tolist()
            ws = [float(x) for x in np.asarray(dm.weights, dtype=float)]
            entry = snap["chans"][wire_name(name)]
            entry["detmap"] = sorted([c + [w] for c, w in zip(coords, ws)])
            if not seq.is_register_mappable():
                try:
                    qw = dm.get_qubit_weight_map(seq.register.qubits)
                    entry["qubit_weights"] = {str(q): float(v) for q, v in qw.items()}
                except Exception as e:  # noqa: BLE001
                    entry["qubit_weights"] = f"error:{type(e).__name__}"
    # the waveforms of every scheduled pulse, summarised from their raw samples (not through the sampler)
    for name, sch in seq._schedule.items():
        entry = snap["chans"][wire_name(name)]
        for sl, out in zip(sch.slots, entry["slots"]):
            if isinstance(sl.type, Pulse):
                out["wf"] = [_wf_digest(sl.type.amplitude), _wf_digest(sl.type.detuning),
                             float(sl.type.post_phase_shift)]
    reg = seq._register
    if not seq.is_register_mappable():
        snap["register"] = [[str(q), [round(float(x), 9) for x in np.asarray(
            reg.qubits[q].as_array() if hasattr(reg.qubits[q], "as_array") else reg.qubits[q], dtype=float)]]
            for q in reg.qubit_ids]
    snap["chan_order"] = list(snap["chans"])
    snap.pop("ncalls", None)
    snap["qids"] = [str(q) for q in qids]
    snap["slm"] = sorted(str(q) for q in seq._slm_mask_targets)
    snap["slm_dmm"] = seq._slm_mask_dmm
    snap["mag"] = None if seq._mag_field is None else [float(x) for x in seq._mag_field]
    return snap


def seq_samples(seq: Sequence):
    """Sampled arrays per channel (or the error class when sampling is refused)."""
    from pulser.sampler import sample

    try:
        with warnings.catch_warnings():
            warnings.simplefilter("ignore")
            ss = sample(seq)
    except Exception as e:  # noqa: BLE001
        return {"error": f"{type(e).__name__}"}
    out = {}
    for name, cs in zip(ss.channels, ss.samples_list):
        out[name] = dict(
            amp=np.asarray(cs.amp.as_array(detach=True) if hasattr(cs.amp, "as_array") else cs.amp, dtype=float),
            det=np.asarray(cs.det.as_array(detach=True) if hasattr(cs.det, "as_array") else cs.det, dtype=float),
            phase=np.asarray(cs.phase.as_array(detach=True) if hasattr(cs.phase, "as_array") else cs.phase,
                             dtype=float),
            slots=[(int(s.ti), int(s.tf), sorted(str(q) for q in s.targets)) for s in cs.slots],
            eom=[(int(b.ti), None if b.tf is None else int(b.tf)) for b in cs.eom_blocks],
        )
    out["__meas__"] = getattr(ss, "_measurement", None)
    out["__slm__"] = (sorted(str(q) for q in ss._slm_mask.targets), int(ss._slm_mask.end))
    return out


def diff_samples(a, b, tol=1e-9):
    if set(a) != set(b):
        return f"sampled channels differ: {sorted(a)} vs {sorted(b)}"
    for name in sorted(a):
        x, y = a[name], b[name]
        if not isinstance(x, dict):
            if x != y:
                return f"samples/{name}: {x!r} vs {y!r}"
            continue
        for key in ("slots", "eom"):
            if x[key] != y[key]:
                return f"samples/{name}/{key}: {x[key]!r} vs {y[key]!r}"
        for key in ("amp", "det", "phase"):
            if x[key].shape != y[key].shape:
                return f"samples/{name}/{key}: length {x[key].shape} vs {y[key].shape}"
            if x[key].size == 0:
                continue
            if key == "phase":
                d = np.abs(x[key] - y[key]) % TWO_PI
                d = np.minimum(d, TWO_PI - d)
            else:
                d = np.abs(x[key] - y[key])
            # relative tolerance for large values (detunings of hundreds of rad/us)
            scale = np.maximum(1.0, np.maximum(np.abs(x[key]), np.abs(y[key])))
            both_nan = np.isnan(x[key]) & np.isnan(y[key])
            same_inf = np.isinf(x[key]) & (x[key] == y[key])
            bad = np.nonzero(~((d <= tol * scale) | both_nan | same_inf))[0]
            if bad.size:
                i = int(bad[0])
                return f"samples/{name}/{key}[{i}]: {x[key][i]!r} vs {y[key][i]!r}"
    return None


def _num(s):
    if isinstance(s, bool):
        return None
    if isinstance(s, (int, float)):
        return float(s)
    if isinstance(s, str):
        try:
            return float(Fraction(s))
        except (ValueError, ZeroDivisionError):
            return None
    return None


def diff_tol(a, b, path="", tol=1e-9):
    """First difference between two canonical structures; numbers (also rational strings)
    within `tol` (phases under /ph and /tr: modulo 2 pi) are equal."""
    if isinstance(a, dict) and isinstance(b, dict):
        for k in sorted(set(a) | set(b), key=str):
            if k not in a or k not in b:
                return f"{path}/{k}: missing on one side"
            d = diff_tol(a[k], b[k], f"{path}/{k}", tol)
            if d:
                return d
        return None
    if isinstance(a, (list, tuple)) and isinstance(b, (list, tuple)):
        if len(a) != len(b):
            return f"{path}: length {len(a)} vs {len(b)}"
        for i, (x, y) in enumerate(zip(a, b)):
            d = diff_tol(x, y, f"{path}[{i}]", tol)
            if d:
                return d
        return None
    if a == b:
        return None
    x, y = _num(a), _num(b)
    if x is not None and y is not None and math.isnan(x) and math.isnan(y):
        return None
    if x is not None and y is not None and isinstance(a, str) == isinstance(b, str):
        if "/ph" in path or "/tr" in path:
            dlt = abs(x - y) % TWO_PI
            if min(dlt, TWO_PI - dlt) <= tol:
                return None
        elif abs(x - y) <= tol * max(1.0, abs(x), abs(y)):
            return None
    return f"{path}: {a!r} vs {b!r}"


def call_repr(c) -> list:
    def r(x):
        if isinstance(x, (list, tuple)):
            return [r(y) for y in x]
        if isinstance(x, dict):
            return {str(k): r(v) for k, v in x.items()}
        if isinstance(x, (set, frozenset)):
            return sorted(str(y) for y in x)
        if isinstance(x, (Register, MappableRegister)) or hasattr(x, "channel_objects"):
            return type(x).__name__
        if hasattr(x, "trap_coordinates") and hasattr(x, "weights"):
            return ["DetuningMap", np.asarray(x.trap_coordinates).tolist(), np.asarray(x.weights).tolist()]
        if isinstance(x, Pulse):
            return repr(x)
        if isinstance(x, float):
            return repr(x)
        return str(x)

    return [c.name, r(c.args), r(c.kwargs)]


def template_snapshot(seq: Sequence, ctx: Ctx, with_abstract: bool = True) -> dict:
    """Everything observable about a template that `build` must leave alone."""
    snap = dict(
        calls=[call_repr(c) for c in seq._calls],
        calls_ids=[[id(a) for a in c.args] + [id(v) for v in c.kwargs.values()] for c in seq._calls],
        to_build=[call_repr(c) for c in seq._to_build_calls],
        to_build_ids=[[id(a) for a in c.args] + [id(v) for v in c.kwargs.values()]
                      for c in seq._to_build_calls],
        variables={n: [v.dtype.__name__, v.size, id(v)] for n, v in seq._variables.items()},
        parametrized=seq.is_parametrized(),
        mappable=seq.is_register_mappable(),
        param_meas=seq._param_measurement,
        measured=seq.is_measured(),
        schedule=seq_snapshot(seq, ctx, list(seq._register.qubit_ids)),
        declared=sorted(seq.declared_channels),
        register_ids=[str(q) for q in seq._register.qubit_ids],
        n_schedule_slots={n: len(s.slots) for n, s in seq._schedule.items()},
    )
    if with_abstract:
        try:
            with warnings.catch_warnings():
                warnings.simplefilter("ignore")
                snap["abstract"] = seq.to_abstract_repr(skip_validation=True)
        except Exception as e:  # noqa: BLE001
            snap["abstract"] = f"error:{type(e).__name__}"
    return snap


# --------------------------------------------------------------------------------------
# valid histories
# --------------------------------------------------------------------------------------
BUILDING = {"declare", "detmap", "target", "add", "adddmm", "addeom", "delay", "align", "shift",
            "eomon", "eommod", "eomoff", "measure", "targeti", "shifti", "slm", "magfield"}


def _nonfinite(x) -> bool:
    """NaN / inf anywhere in an op (accepted by the library, finding of C01/C16; not our subject)."""
    if isinstance(x, float):
        return not math.isfinite(x)
    if isinstance(x, dict):
        return any(_nonfinite(v) for v in x.values())
    if isinstance(x, (list, tuple)):
        return any(_nonfinite(v) for v in x)
    return False


def valid_history(rng: random.Random, spec: dict, nops: int, profile: str = "mix", exact: bool = False,
                  p_invalid: float = 0.04) -> list:
    """A history of successful building calls (drawn by gen.HistoryGen on the real code,
    failed calls and queries dropped, then re-validated on a fresh sequence)."""
    from gen import HistoryGen

    dev = Dev(spec)
    real = RealSeq(dev)
    g = HistoryGen(rng, spec, exact=exact, profile=profile, p_invalid=p_invalid)
    ops = []
    for _ in range(nops):
        op = g.next_op()
        status, _ = real.apply(op)
        g.feedback(op, status, real)
        if status == "ok" and op["k"] in BUILDING and not _nonfinite(op):
            ops.append(op)
    # failed calls may have left traces (findings F2.x): keep what replays cleanly
    ctx = Ctx(spec)
    seq = ctx.new_template()
    good = []
    for op in ops:
        r = try_op(seq, ctx, op, lambda x: x)
        if r[0] != "ok":
            break
        good.append(op)
    return good


class _Real(RealSeq):
    """What gen.HistoryGen looks at (a RealSeq around a sequence of any context)."""

    def __init__(self, seq, ctx):  # noqa: super().__init__ would build a lattice device
        self.seq = seq
        self.dev = ctx


def valid_history_ctx(rng: random.Random, ctx: Ctx, nops: int, profile: str = "mix", exact: bool = False,
                      p_invalid: float = 0.04) -> list:
    """`valid_history` on any context (built-in devices, layout registers)."""
    from gen import HistoryGen

    seq = ctx.new_template()
    real = _Real(seq, ctx)
    g = HistoryGen(rng, ctx.spec, exact=exact, profile=profile, p_invalid=p_invalid)
    ops = []
    for _ in range(nops):
        op = g.next_op()
        if op["k"] not in BUILDING or _nonfinite(op):
            continue
        r = try_op(seq, ctx, op, lambda x: x)
        g.feedback(op, r[0], real)
        if r[0] == "ok":
            ops.append(op)
    return revalidate(ctx, ops)


def revalidate(ctx: Ctx, ops: list) -> list:
    """The ops that ALL succeed, in order, on a fresh sequence.  A refused call may leave traces
    (findings F2.x), so after dropping the refused ones the rest is replayed from scratch until
    nothing is refused any more."""
    for _ in range(6):
        seq = ctx.new_template()
        good, dropped = [], False
        for op in ops:
            if try_op(seq, ctx, op, lambda x: x)[0] == "ok":
                good.append(op)
            else:
                dropped = True
        ops = good
        if not dropped:
            return ops
    # give up: the longest prefix that replays cleanly
    seq = ctx.new_template()
    good = []
    for op in ops:
        if try_op(seq, ctx, op, lambda x: x)[0] != "ok":
            break
        good.append(op)
    return good


def _alt_wf(rng: random.Random, dur: int, lo: float, hi: float, kinds=None):
    """A waveform of duration `dur` of one of the kinds HistoryGen does not draw."""
    v = lambda: round(rng.uniform(lo, hi), 3)  # noqa: E731
    kinds = kinds or ["kaiser", "kaiser_beta", "composite", "interp_times", "interp_pchip", "custom", "ramp", "const"]
    k = rng.choice(kinds)
    if k == "kaiser" and dur >= 4 and lo >= 0:
        return ["kaiser", dur, round(rng.uniform(0.1, 2.0), 3)]
    if k == "kaiser_beta" and dur >= 4 and lo >= 0:
        return ["kaiser", dur, round(rng.uniform(0.1, 2.0), 3), rng.choice([2.0, 8.5, 14.0])]
    if k == "composite" and dur >= 4:
        d1 = rng.randrange(1, dur)
        return ["composite", [["const", d1, v()], ["ramp", dur - d1, v(), v()] if dur - d1 >= 2 else ["const", dur - d1, v()]]]
    if k == "interp_times" and dur >= 8:
        return ["interp", dur, [v(), v(), v()], [0.0, rng.choice([0.25, 0.5, 0.7]), 1.0]]
    if k == "interp_pchip" and dur >= 8:
        w = ["interp", dur, [v(), v(), v(), v()], None, rng.choice(["PchipInterpolator", "interp1d"])]
        return w + ["pos"] if rng.random() < 0.4 else w
    if k == "custom" and dur <= 64:
        return ["custom", [v() for _ in range(dur)]]
    if k == "ramp" and dur >= 2:
        return ["ramp", dur, v(), v()]
    return ["const", dur, v()]


def decorate(rng: random.Random, ctx: Ctx, ops: list, stats=None) -> list:
    """Widen a HistoryGen history to every op kind / pulse constructor / waveform kind of the
    public API (then re-validated by the caller)."""
    out = []
    spec = ctx.spec
    note = (lambda k: stats.__setitem__(k, stats.get(k, 0) + 1)) if stats is not None else (lambda k: None)
    has_xy = any(c["kind"] == "microwave" for c in spec["channels"])
    if has_xy and rng.random() < 0.5:
        out.append(dict(k="magfield", field=[rng.choice([0.0, 1.5]), rng.choice([0.0, -2.0]), rng.choice([30.0, 12.5])]))
        note("magfield")
    slm_ok = (not ctx.mappable) and bool(ctx.dmm_ids) and getattr(ctx.device, "supports_slm_mask", False)
    slm_at = rng.randrange(0, len(ops) + 1) if (slm_ok and rng.random() < 0.3) else None
    for i, op in enumerate(ops):
        if slm_at == i:
            qs = sorted(rng.sample(range(ctx.nq), rng.randrange(1, ctx.nq + 1)))
            d = dict(k="slm", qs=qs, dmm=rng.choice(ctx.dmm_ids))
            out.append(d)
            note("slm")
        op = copy.deepcopy(op)
        k = op["k"]
        if k == "add" and rng.random() < 0.55:
            p = op["pulse"]
            dur = _wf_duration(p["amp"])
            ch = real_name(op["ch"])
            x = rng.random()
            amax = 8.0
            if x < 0.2:
                p["amp"] = _alt_wf(rng, dur, 0.0, amax)
                note("wf:" + p["amp"][0])
            elif x < 0.35:
                p["det"] = _alt_wf(rng, dur, -20.0, 20.0, ["composite", "interp_times", "interp_pchip", "custom", "ramp"])
                note("wf:" + p["det"][0])
            elif x < 0.5:
                det = p["det"][2] if p["det"][0] == "const" else round(rng.uniform(-10, 10), 3)
                amp = p["amp"]
                if rng.random() < 0.4:
                    amp = [rng.choice(["blackman_max", "kaiser_max"]), round(rng.uniform(2.0, amax), 3),
                           round(rng.uniform(0.2, 2.5), 3)]
                op["pulse"] = dict(kind="constdet", amp=amp, det=det, phase=p.get("phase", 0.0), post=p.get("post", 0.0))
                note("pulse:constdet:" + amp[0])
            elif x < 0.65:
                amp = p["amp"][2] if p["amp"][0] == "const" else round(rng.uniform(0.5, amax), 3)
                op["pulse"] = dict(kind="constamp", amp=amp, det=p["det"], phase=p.get("phase", 0.0),
                                   post=p.get("post", 0.0))
                note("pulse:constamp")
            elif x < 0.8:
                op["pulse"] = dict(kind="constpulse", dur=dur, amp=round(rng.uniform(0.5, amax), 3),
                                   det=round(rng.uniform(-10, 10), 3), phase=p.get("phase", 0.0), post=p.get("post", 0.0))
                note("pulse:constpulse")
            else:
                phase_wf = _alt_wf(rng, dur, -3.0, 3.0, ["const", "ramp", "interp_times", "custom"])
                op["pulse"] = dict(kind="arbphase", amp=p["amp"], phase_wf=phase_wf, post=p.get("post", 0.0))
                note("pulse:arbphase:" + phase_wf[0])
        elif k == "detmap" and rng.random() < 0.6:
            order = list(range(ctx.nq))
            rng.shuffle(order)
            op["order"] = order
            note("detmap:order")
        elif k == "adddmm" and rng.random() < 0.3:
            dur = _wf_duration(op["wf"])
            if dur:
                op["wf"] = _alt_wf(rng, dur, -8.0, 0.0, ["composite", "interp_times", "custom", "ramp"])
                note("dmmwf:" + op["wf"][0])
        elif k == "target" and rng.random() < 0.4:
            op["k"] = "targeti"
            if len(op["qs"]) == 1 and rng.random() < 0.5:
                op["qs"] = op["qs"][0]
            note("target_index")
        elif k == "shift" and op["qs"] and rng.random() < 0.4:
            op["k"] = "shifti"
            note("phase_shift_index")
        out.append(op)
    if slm_at == len(ops):
        qs = sorted(rng.sample(range(ctx.nq), rng.randrange(1, ctx.nq + 1)))
        out.append(dict(k="slm", qs=qs, dmm=rng.choice(ctx.dmm_ids)))
        note("slm")
    if not any(o["k"] == "measure" for o in out) and rng.random() < 0.4:
        bases = {"rydberg": "ground-rydberg", "raman": "digital", "microwave": "XY"}
        avail = sorted({bases[c["kind"]] for c in spec["channels"]})
        if has_xy and any(o["k"] == "declare" and o["id"] < len(spec["channels"])
                          and spec["channels"][o["id"]]["kind"] == "microwave" for o in out):
            avail = ["XY"]
        else:
            avail = [b for b in avail if b != "XY"] or avail
        out.append(dict(k="measure", basis=rng.choice(avail)))
        note("measure")
    return out


def install_check_schema_memo() -> None:
    """`jsonschema.validate` re-validates the (constant) schema against its metaschema on every call;
    memoise `check_schema` per schema object: same verdicts, the library stays on its validating path."""
    import jsonschema

    if getattr(install_check_schema_memo, "done", False):
        return
    for cls in (jsonschema.Draft7Validator, jsonschema.Draft202012Validator, jsonschema.Draft201909Validator,
                jsonschema.Draft6Validator, jsonschema.Draft4Validator):
        orig = cls.check_schema.__func__
        seen: dict = {}

        def check_schema(klass, schema, *a, _orig=orig, _seen=seen, **kw):
            key = id(schema)
            if key not in _seen:
                _orig(klass, schema, *a, **kw)
                _seen[key] = schema
            return None

        cls.check_schema = classmethod(check_schema)
    install_check_schema_memo.done = True


def install_validate_memo(size: int = 16) -> None:
    """The same document is validated three times per round trip (inside `to_abstract_repr`, by the
    explicit `validate_abstract_repr`, inside `from_abstract_repr`); validation is a pure function of
    (schema, instance): remember the verdict of the last few (schema, instance) pairs."""
    import jsonschema

    if getattr(install_validate_memo, "done", False):
        return
    orig = jsonschema.validate
    memo: dict = {}

    def validate(instance, schema, *args, **kwargs):
        try:
            key = (id(schema), json.dumps(instance, sort_keys=True))
        except (TypeError, ValueError):
            return orig(instance, schema, *args, **kwargs)
        if key in memo:
            exc = memo[key]
            if exc is not None:
                raise exc
            return None
        try:
            orig(instance, schema, *args, **kwargs)
            verdict = None
        except jsonschema.exceptions.ValidationError as e:
            verdict = e
        if len(memo) >= size:
            memo.pop(next(iter(memo)))
        memo[key] = verdict
        if verdict is not None:
            raise verdict
        return None

    jsonschema.validate = validate
    install_validate_memo.done = True
    install_validate_memo.calls = memo


# --------------------------------------------------------------------------------------
# parametrisation of a concrete history
# --------------------------------------------------------------------------------------
class VarPool:
    """Declared variables with the values that reproduce the original history."""

    def __init__(self, rng: random.Random):
        self.rng = rng
        self.decl: dict[str, dict] = {}     # name -> {dtype, size, roles: [...]}
        self.base: dict[str, list] = {}     # name -> values
        self.n = 0

    def fresh(self, dtype: str, size: int, values: list, role: str) -> str:
        name = f"{'n' if dtype == 'int' else 'x'}{self.n}"
        self.n += 1
        self.decl[name] = dict(dtype=dtype, size=size, roles=[role] * size)
        self.base[name] = list(values)
        return name

    def item(self, dtype: str, value, role: str):
        """An item expression with value `value`: a fresh scalar variable, or a slot of an
        array variable that still has room."""
        r = self.rng
        if r.random() < 0.35:
            for name, d in self.decl.items():
                if d["dtype"] == dtype and d["size"] > 1 and len(self.base[name]) < d["size"]:
                    self.base[name].append(value)
                    d["roles"][len(self.base[name]) - 1] = role
                    return {"v": name, "i": len(self.base[name]) - 1}
            if r.random() < 0.6:
                size = r.choice([2, 3, 4])
                name = self.fresh(dtype, size, [value], role)
                return {"v": name, "i": 0}
        name = self.fresh(dtype, 1, [value], role)
        return {"v": name, "i": 0}

    def finish(self):
        """Fill the unused slots of array variables."""
        for name, d in self.decl.items():
            while len(self.base[name]) < d["size"]:
                self.base[name].append(0 if d["dtype"] == "int" else 0.0)


def float_expr(pool: VarPool, v: float, role: str):
    """An expression over a (new) variable whose value is ~v."""
    r = pool.rng
    forms = ["x", "x", "2x+1", "x/2", "-x", "x*c", "c-x", "x+y"]
    if v >= 0:
        forms += ["abs", "sqrt"]
    if abs(v) <= 1:
        forms += ["sin", "cos"]
    if 0 < v < 50:
        forms += ["exp"]
    f = r.choice(forms)
    it = lambda val: pool.item("float", float(val), role)  # noqa: E731
    if f == "x":
        return it(v)
    if f == "2x+1":
        return {"b": "add", "l": {"b": "mul", "l": 2, "r": it((v - 1) / 2)}, "r": 1}
    if f == "x/2":
        return {"b": "div", "l": it(v * 2), "r": 2}
    if f == "-x":
        return {"u": "neg", "a": it(-v)}
    if f == "x*c":
        c = r.choice([0.5, 2.0, 1.25, -1.0])
        return {"b": "mul", "l": it(v / c), "r": c}
    if f == "c-x":
        c = r.choice([1.0, 0.0, 3.5])
        return {"b": "sub", "l": c, "r": it(c - v)}
    if f == "x+y":
        a = round(v * r.uniform(0.2, 0.8), 4)
        return {"b": "add", "l": it(a), "r": it(v - a)}
    if f == "abs":
        return {"u": "abs", "a": it(-v if r.random() < 0.5 else v)}
    if f == "sqrt":
        return {"u": "sqrt", "a": it(v * v)}
    if f == "sin":
        return {"u": "sin", "a": it(math.asin(v))}
    if f == "cos":
        return {"u": "cos", "a": it(math.acos(v))}
    if f == "exp":
        return {"u": "exp", "a": it(math.log(v))}
    return it(v)


def exotic_float_expr(pool: VarPool, v: float, role: str):
    """The remaining operators of `OpSupport` (pow, mod, floor-div, floor, ceil, log, log2, tan,
    tanh, rounding) around a variable, with value ~v."""
    r = pool.rng
    it = lambda val: pool.item("float", float(val), role)  # noqa: E731
    forms = ["pow1", "rpow", "mod", "tanh+", "tan", "round", "pyround", "floor+", "ceil-", "floordiv"]
    if v >= 0:
        forms += ["pow2"]
    if v > 0:
        forms += ["log", "log2"]
    f = r.choice(forms)
    if f == "pow1":
        return {"b": "pow", "l": it(v), "r": 1}
    if f == "pow2":
        return {"b": "pow", "l": it(math.sqrt(v)), "r": 2}
    if f == "rpow":   # 2 ** x - 2 ** x0 + v
        x0 = round(r.uniform(-1, 1), 3)
        return {"b": "add", "l": {"b": "pow", "l": 2, "r": it(x0)}, "r": v - 2 ** x0}
    if f == "mod":
        m = abs(v) + r.choice([1.0, 7.5])
        return {"b": "mod", "l": it(v % m), "r": m} if v >= 0 else {"u": "neg", "a": {"b": "mod", "l": it((-v) % m), "r": m}}
    if f == "tanh+":
        x0 = round(r.uniform(-1, 1), 3)
        return {"b": "add", "l": {"u": "tanh", "a": it(x0)}, "r": v - math.tanh(x0)}
    if f == "tan":
        x0 = round(r.uniform(-1, 1), 3)
        return {"b": "add", "l": {"u": "tan", "a": it(x0)}, "r": v - math.tan(x0)}
    if f == "log":
        return {"u": "log", "a": it(math.exp(min(v, 50.0)))} if v < 50 else it(v)
    if f == "log2":
        return {"u": "log2", "a": it(2.0 ** min(v, 50.0))} if v < 50 else it(v)
    if f in ("round", "pyround"):
        x0 = round(r.uniform(-3, 3), 2)
        return {"b": "add", "l": {"u": f, "a": it(x0)}, "r": v - float(np.round(x0))}
    if f == "floor+":
        x0 = round(r.uniform(-3, 3), 2)
        return {"b": "add", "l": {"u": "floor", "a": it(x0)}, "r": v - math.floor(x0)}
    if f == "ceil-":
        x0 = round(r.uniform(-3, 3), 2)
        return {"b": "add", "l": {"u": "ceil", "a": it(x0)}, "r": v - math.ceil(x0)}
    if f == "floordiv":
        x0 = round(r.uniform(1, 9), 2)
        return {"b": "add", "l": {"b": "floordiv", "l": it(x0), "r": 2}, "r": v - (x0 // 2)}
    return it(v)


def int_expr(pool: VarPool, v: int, role: str):
    """An integer-valued expression (int variables, integer-preserving operators)."""
    r = pool.rng
    forms = ["n", "n", "n+c", "2n+r", "-n", "abs", "c-n", "n*1"]
    f = r.choice(forms)
    it = lambda val: pool.item("int", int(val), role)  # noqa: E731
    if f == "n":
        return it(v)
    if f == "n+c":
        c = r.choice([1, 4, 16, -3])
        return {"b": "add", "l": it(v - c), "r": c}
    if f == "2n+r":
        return {"b": "add", "l": {"b": "mul", "l": 2, "r": it((v - v % 2) // 2)}, "r": v % 2}
    if f == "-n":
        return {"u": "neg", "a": it(-v)}
    if f == "abs":
        return {"u": "abs", "a": it(-v if r.random() < 0.5 else v)}
    if f == "c-n":
        c = r.choice([1000, 0, 52])
        return {"b": "sub", "l": c, "r": it(c - v)}
    return {"b": "mul", "l": it(v), "r": 1}


def _wf_duration(w):
    k = w[0]
    if k in ("const", "ramp", "blackman", "interp", "kaiser"):
        return w[1]
    if k == "custom":
        return len(w[1])
    if k == "composite":
        return sum(_wf_duration(x) for x in w[1])
    return None


def _expr_nodes(e):
    if isinstance(e, dict):
        yield e
        for v in e.values():
            yield from _expr_nodes(v)


class Parametrizer:
    """Replaces a random subset of the numeric arguments of a history by expressions."""

    def __init__(self, rng: random.Random, pool: VarPool, p: float = 0.45, exotic: float = 0.0):
        self.rng = rng
        self.pool = pool
        self.p = p
        self.exotic = exotic
        self.list_of_items = True   # also draw target_index([v0, v1]) (finding F-C08-1)
        self.slices = False         # also draw slices v[a:b] of array variables
        self.positions = {}  # histogram of parametrised positions
        self.operators = {}  # histogram of expression operators used

    def fexpr(self, v, role: str):
        e = exotic_float_expr(self.pool, v, role) if self.rng.random() < self.exotic else float_expr(self.pool, v, role)
        for node in _expr_nodes(e):
            key = node.get("b") or node.get("u")
            if key:
                self.operators[key] = self.operators.get(key, 0) + 1
        return e

    def array(self, values: list, dtype: str, role: str):
        """An array-valued expression: a whole variable, or (when `slices`) a slice v[a:b] of a longer one."""
        cast = int if dtype == "int" else float
        vals = [cast(x) for x in values]
        if self.slices and len(vals) >= 1 and self.rng.random() < 0.4:
            a = self.rng.choice([0, 1, 2])
            pad = self.rng.choice([0, 1, 2]) if a else self.rng.choice([1, 2])
            full = [cast(0)] * a + vals + [cast(0)] * pad
            name = self.pool.fresh(dtype, len(full), full, role)
            self.positions["slice"] = self.positions.get("slice", 0) + 1
            return {"V": name, "s": [a, a + len(vals)]}
        name = self.pool.fresh(dtype, len(vals), vals, role)
        return {"V": name}

    def hit(self, what: str) -> bool:
        if self.rng.random() < self.p:
            self.positions[what] = self.positions.get(what, 0) + 1
            return True
        return False

    def wf(self, w, shared_dur=None, role="amp"):
        """Parametrise a waveform; `shared_dur` is an expression for the duration shared
        by the two waveforms of one pulse (they must stay equal)."""
        w = list(w)
        k = w[0]
        if k in ("const", "ramp", "blackman", "kaiser", "interp") and shared_dur is not None:
            w[1] = shared_dur
        if k == "const":
            if self.hit(f"wf.const.{role}"):
                w[2] = self.fexpr(w[2], role)
        elif k == "ramp":
            if self.hit(f"wf.ramp.{role}"):
                w[2] = self.fexpr(w[2], role)
            if self.hit(f"wf.ramp.{role}"):
                w[3] = self.fexpr(w[3], role)
        elif k in ("blackman", "kaiser"):
            if self.hit(f"wf.{k}.area"):
                w[2] = self.fexpr(w[2], "area")
        elif k in ("blackman_max", "kaiser_max"):
            if self.hit(f"wf.{k}.area"):
                w[2] = self.fexpr(w[2], "area")
        elif k == "interp":
            if self.hit("wf.interp.values") and len(w[2]) <= 6 and (len(w) < 4 or w[3] is None):
                w[2] = self.array(list(w[2]), "float", role)
        elif k == "custom":
            if self.hit("wf.custom.samples") and len(w[1]) <= 24:
                w[1] = self.array(list(w[1]), "float", role)
        elif k == "composite":
            w[1] = [self.wf(x, None, role) for x in w[1]]
        return w

    def pulse(self, p: dict) -> dict:
        p = copy.deepcopy(p)
        kind = p.get("kind", "pulse")
        if kind == "pulse":
            da, dd = _wf_duration(p["amp"]), _wf_duration(p["det"])
            shared = None
            simple = p["amp"][0] in ("const", "ramp", "blackman", "kaiser", "interp") and \
                p["det"][0] in ("const", "ramp", "blackman", "kaiser", "interp")
            if simple and da == dd and self.hit("pulse.duration"):
                shared = int_expr(self.pool, da, "dur")
            p["amp"] = self.wf(p["amp"], shared, "amp")
            p["det"] = self.wf(p["det"], shared, "det")
        elif kind == "constdet":
            shared = None
            if p["amp"][0] in ("const", "ramp", "blackman", "kaiser", "interp") and self.hit("pulse.duration"):
                shared = int_expr(self.pool, _wf_duration(p["amp"]), "dur")
            p["amp"] = self.wf(p["amp"], shared, "amp")
            if self.hit("pulse.constdet.det"):
                p["det"] = self.fexpr(p["det"], "det")
        elif kind == "constamp":
            shared = None
            if p["det"][0] in ("const", "ramp", "blackman", "kaiser", "interp") and self.hit("pulse.duration"):
                shared = int_expr(self.pool, _wf_duration(p["det"]), "dur")
            p["det"] = self.wf(p["det"], shared, "det")
            if self.hit("pulse.constamp.amp"):
                p["amp"] = self.fexpr(p["amp"], "amp")
        elif kind == "constpulse":
            if self.hit("pulse.duration"):
                p["dur"] = int_expr(self.pool, p["dur"], "dur")
            if self.hit("pulse.constpulse.amp"):
                p["amp"] = self.fexpr(p["amp"], "amp")
            if self.hit("pulse.constpulse.det"):
                p["det"] = self.fexpr(p["det"], "det")
        elif kind == "arbphase":
            shared = None
            if p["amp"][0] in ("const", "ramp", "blackman", "kaiser", "interp") and \
                    p["phase_wf"][0] in ("const", "ramp", "interp") and self.hit("pulse.duration"):
                shared = int_expr(self.pool, _wf_duration(p["amp"]), "dur")
            p["amp"] = self.wf(p["amp"], shared, "amp")
            p["phase_wf"] = self.wf(p["phase_wf"], shared, "phase")
        if kind != "arbphase" and self.hit("pulse.phase"):
            p["phase"] = self.fexpr(p.get("phase", 0.0), "phase")
        if self.hit("pulse.post"):
            p["post"] = self.fexpr(p.get("post", 0.0), "phase")
        return p

    def op(self, op: dict, allow_index: bool = True) -> dict:
        """A parametrised copy of one op (may come back unchanged)."""
        op = copy.deepcopy(op)
        k = op["k"]
        pool = self.pool
        if k == "add":
            op["pulse"] = self.pulse(op["pulse"])
        elif k == "adddmm":
            shared = None
            if op["wf"][0] in ("const", "ramp", "interp") and self.hit("dmm.duration"):
                shared = int_expr(pool, _wf_duration(op["wf"]), "dur")
            op["wf"] = self.wf(op["wf"], shared, "dmmdet")
        elif k == "addeom":
            if self.hit("eom_pulse.duration"):
                op["dur"] = int_expr(pool, op["dur"], "dur")
            if self.hit("eom_pulse.phase"):
                op["phase"] = self.fexpr(op["phase"], "phase")
            if self.hit("eom_pulse.post"):
                op["post"] = self.fexpr(op.get("post", 0.0), "phase")
        elif k == "delay":
            if self.hit("delay.duration"):
                op["d"] = int_expr(pool, op["d"], "dur")
        elif k in ("eomon", "eommod"):
            if self.hit("eom.amp_on"):
                op["amp"] = self.fexpr(op["amp"], "eomamp")
            if self.hit("eom.detuning_on"):
                op["det_on"] = self.fexpr(op["det_on"], "det")
            if self.hit("eom.optimal_detuning_off"):
                op["optimal"] = self.fexpr(op.get("optimal", 0.0), "det")
        elif k == "shift":
            if allow_index and op["qs"] and self.rng.random() < 0.5:
                op["k"] = "shifti"
                op["qs"] = [int_expr(pool, q, "idx") if self.hit("phase_shift_index.target") else q
                            for q in op["qs"]]
            if self.hit("phase_shift.phi"):
                op["phi"] = self.fexpr(op["phi"], "phase")
        elif k == "target":
            if allow_index and self.rng.random() < 0.6:
                op["k"] = "targeti"
                qs = op["qs"]
                x = self.rng.random()
                if x < 0.4 and qs:
                    self.positions["target_index.array"] = self.positions.get("target_index.array", 0) + 1
                    op["qs"] = self.array(list(qs), "int", "idx")
                elif x < 0.7 and len(qs) == 1:
                    self.positions["target_index.item"] = self.positions.get("target_index.item", 0) + 1
                    op["qs"] = int_expr(pool, qs[0], "idx")
                elif x < 0.74 and qs and self.list_of_items:
                    # a COLLECTION with parametrized items: accepted when stored (the index check skips
                    # parametrized items) -- see finding F-C08-1
                    self.positions["target_index.list_of_items"] = \
                        self.positions.get("target_index.list_of_items", 0) + 1
                    op["qs"] = [int_expr(pool, q, "idx") for q in qs]
                # else: concrete index list
        return op


def perturb(rng: random.Random, pool: VarPool, ctx: Ctx, strength: float = 1.0) -> dict:
    """Another assignment of all variables, role-aware so that most builds stay valid."""
    out = {}
    for name, d in pool.decl.items():
        vals = []
        for i, v in enumerate(pool.base[name]):
            role = d["roles"][i]
            if d["dtype"] == "int":
                if role == "idx":
                    # (on a mappable register also indices of the extra declared ids: valid for the builds
                    # that map enough qubits, IndexError -- in build and direct alike -- for the others)
                    hi = len(ctx.qids) if (ctx.mappable and rng.random() < 0.5) else ctx.nq
                    nv = rng.randrange(0, hi) if rng.random() < 0.9 * strength else v
                else:
                    nv = v + rng.choice([0, 4, 8, 16, -4, 52, 100]) if rng.random() < strength else v
                vals.append(int(nv))
            else:
                if role == "phase":
                    nv = v + rng.choice([0.0, 0.5, -1.25, 3.0])
                elif role in ("amp", "eomamp", "area", "dmmdet"):
                    nv = v * rng.choice([1.0, 0.5, 0.75, 0.9])
                else:
                    nv = v * rng.choice([1.0, 0.5, -0.5, 0.8])
                vals.append(float(nv))
        out[name] = vals
    return out


def all_exprs(x, acc=None) -> list:
    """All maximal expression nodes of a JSON value."""
    acc = [] if acc is None else acc
    if is_expr(x):
        acc.append(x)
    elif isinstance(x, dict):
        for v in x.values():
            all_exprs(v, acc)
    elif isinstance(x, (list, tuple)):
        for v in x:
            all_exprs(v, acc)
    return acc


def sanitize(ops: list, assign: dict, base: dict, decl: dict) -> dict:
    """Keep an alternative assignment inside the domain of the expressions (sqrt/log of a
    negative number, division by zero, overflow): offending variables fall back to base."""
    assign = {n: list(v) for n, v in assign.items()}
    for e in all_exprs(ops):
        for _ in range(2):
            try:
                with np.errstate(all="ignore"):
                    v = evaluate(e, assign, decl)
                vals = v if isinstance(v, list) else [v]
                if all(math.isfinite(float(x)) for x in vals):
                    break
            except (ValueError, ZeroDivisionError, OverflowError):
                pass
            for n in expr_vars(e):
                assign[n] = list(base[n])
    return assign


def norm_err(cls: str) -> str:
    """Error class without the value-dependent tail of unclassified messages."""
    if cls.startswith("other:"):
        parts = cls.split(":", 2)
        msg = parts[2] if len(parts) > 2 else ""
        import re

        msg = re.sub(r"array\(([^)]*)\)", r"\1", msg)
        msg = re.sub(r"[-+]?\d+(\.\d+)?", "#", msg)
        return f"other:{parts[1]}:{msg[:40]}"
    return cls


def assignment_kwargs(assign: dict, decl: dict) -> dict:
    """Values as given to `Sequence.build`: scalars for size-1 variables half of the time."""
    return {n: (v[0] if decl[n]["size"] == 1 else list(v)) for n, v in assign.items()}
