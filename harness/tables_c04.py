"""C04 translator: live code -> lean/PulserModel/Generated/AbstractOps.lean

Extracted from the code that is imported NOW:

* the `if/elif call.name == …` chain of `serialize_abstract_sequence`            -- ast
    per Sequence call: the abstract operation it appends, the keys it always emits, the keys it
    removes when the value equals the default (`remove_kwarg_if_default`), which call argument
    every key carries, the top-level keys it writes (`res[...]`)
* the `if/elif op["op"] == …` chain of `_deserialize_operation`                   -- ast
    per abstract operation: the keys it reads (`op["k"]`), the keys it reads with a fallback
    (`op.get("k", d)`) and that fallback, the Sequence method it calls and which parameter
    receives which key
* `deserialize_abstract_sequence`: top-level keys read (`obj["k"]`, `"k" in obj`)  -- ast
* `inspect.signature` of the live `Sequence` methods (the defaults the encoder elides at) -- reflection
* `SIGNATURES["Pulse"]`, `["Pulse.ArbitraryPhase"]` (the keys of a pulse)         -- live constants
* `required` / `properties` of the `Op*` definitions and of the top-level object
  of `schemas/sequence-schema.json`                                               -- json.load

If the source cannot be read this way any more a `TableError` is raised (broken tie).
"""
from __future__ import annotations

import ast
import inspect
import json
import textwrap
from pathlib import Path

import common


class TableError(Exception):
    """The table cannot be extracted from the source as it is now (broken tie)."""


GENERATED = common.LEAN_DIR / "PulserModel" / "Generated" / "AbstractOps.lean"


# --------------------------------------------------------------------------------------
# helpers
# --------------------------------------------------------------------------------------
def _src(module) -> tuple[ast.Module, str]:
    path = Path(inspect.getsourcefile(module))
    text = path.read_text()
    return ast.parse(text), str(path)


def _func(tree: ast.Module, name: str) -> ast.FunctionDef:
    for node in ast.walk(tree):
        if isinstance(node, ast.FunctionDef) and node.name == name:
            return node
    raise TableError(f"function {name} not found")


def _const(node):
    if isinstance(node, ast.Constant):
        return node.value
    raise TableError(f"constant expected at line {getattr(node, 'lineno', '?')}: {ast.dump(node)[:80]}")


def _is_name(node, name: str) -> bool:
    return isinstance(node, ast.Name) and node.id == name


def _is_attr(node, base: str, attr: str) -> bool:
    return isinstance(node, ast.Attribute) and node.attr == attr and _is_name(node.value, base)


def pyrepr(v) -> str:
    """Canonical literal of a default value (what both sides are compared on)."""
    if isinstance(v, bool) or v is None:
        return repr(v)
    if isinstance(v, (int, float)):
        return repr(float(v)) if isinstance(v, float) else repr(v)
    return repr(v)


class Keys:
    """Symbolic dict: keys always present (key -> source argument) and keys elided at a default."""

    def __init__(self):
        self.always: dict[str, str] = {}    # key -> argument it carries ("" unknown)
        self.elided: dict[str, tuple[str, str]] = {}  # key -> (default literal, argument)
        self.pulse = False                  # .update(<pulse>._to_abstract_repr())

    def copy(self):
        k = Keys()
        k.always = dict(self.always)
        k.elided = dict(self.elided)
        k.pulse = self.pulse
        return k


# --------------------------------------------------------------------------------------
# encoder
# --------------------------------------------------------------------------------------
def _sequence_methods():
    from pulser.sequence.sequence import Sequence

    return {n: getattr(Sequence, n) for n in dir(Sequence)
            if not n.startswith("_") and callable(getattr(Sequence, n))}


def _default_of(method: str, param: str) -> str:
    from pulser.sequence.sequence import Sequence

    try:
        sig = inspect.signature(getattr(Sequence, method))
        d = sig.parameters[param].default
    except (AttributeError, KeyError) as e:
        raise TableError(f"no parameter {param} in Sequence.{method}") from e
    if d is inspect.Parameter.empty:
        raise TableError(f"Sequence.{method}({param}) has no default but the encoder elides it")
    return pyrepr(d)


def _first_data_key(node, dict_names=("data",)) -> str:
    """The call argument an emitted value is computed from."""
    for n in ast.walk(node):
        if isinstance(n, ast.Subscript) and isinstance(n.value, ast.Name) and n.value.id in dict_names:
            if isinstance(n.slice, ast.Constant):
                return str(n.slice.value)
        if isinstance(n, ast.Call) and isinstance(n.func, ast.Attribute) and n.func.attr == "get" \
                and _is_attr(n.func.value, "call", "kwargs") and n.args:
            return str(_const(n.args[0]))
    for n in ast.walk(node):
        if isinstance(n, ast.Subscript) and _is_attr(n.value, "call", "args"):
            if isinstance(n.slice, ast.Constant):
                return f"*{n.slice.value}"
            return "*rest"
        if _is_attr(n, "call", "args"):
            return "*all"
    return ""


class EncoderBranch:
    def __init__(self, calls: list[str]):
        self.calls = calls
        self.ops: list[tuple[str, Keys]] = []       # (abstract op name, keys)
        self.top: list[str] = []                    # top-level keys written
        self.raises_only = False


def _branch_calls(test: ast.expr) -> list[str]:
    methods = _sequence_methods()
    if isinstance(test, ast.Compare) and len(test.ops) == 1:
        if isinstance(test.ops[0], ast.Eq) and _is_attr(test.left, "call", "name"):
            return [str(_const(test.comparators[0]))]
        if isinstance(test.ops[0], ast.In) and _is_attr(test.comparators[0], "call", "name"):
            sub = str(_const(test.left))
            return sorted(n for n in methods if sub in n)
    raise TableError(f"unrecognised test of the encoder chain at line {test.lineno}")


def _eval_dict(node: ast.Dict, env: dict, calls: list[str]) -> Keys:
    out = Keys()
    for k, v in zip(node.keys, node.values):
        if k is None:  # **name
            if isinstance(v, ast.Name) and v.id in env:
                src = env[v.id]
                out.always.update(src.always)
                out.elided.update(src.elided)
            else:
                raise TableError(f"unknown ** operand at line {node.lineno}")
        else:
            key = str(_const(k))
            out.always[key] = f"={v.value}" if key == "op" and isinstance(v, ast.Constant) else _first_data_key(v)
    return out


def _walk_encoder_body(body: list[ast.stmt], env: dict, br: EncoderBranch):
    for st in body:
        if isinstance(st, ast.Assign) and len(st.targets) == 1:
            tgt, val = st.targets[0], st.value
            # res["k"] = ... / res["k"][...] = ...
            t = tgt
            while isinstance(t, ast.Subscript) and not _is_name(t.value, "res") and isinstance(t.value, ast.Subscript):
                t = t.value
            if isinstance(t, ast.Subscript) and _is_name(t.value, "res"):
                br.top.append(str(_const(t.slice)))
                continue
            # op_dict["k"] = ...
            if isinstance(tgt, ast.Subscript) and isinstance(tgt.value, ast.Name) and tgt.value.id in env \
                    and isinstance(tgt.slice, ast.Constant):
                key = str(tgt.slice.value)
                d = env[tgt.value.id]
                if key == "op":
                    d.always["op"] = f"={_const(val)}"
                else:
                    d.always[key] = _first_data_key(val)
                continue
            if isinstance(tgt, ast.Name):
                name = tgt.id
                if isinstance(val, ast.Call) and _is_name(val.func, "get_all_args"):
                    k = Keys()
                    for e in val.args[0].elts:
                        k.always[str(_const(e))] = str(_const(e))
                    env[name] = k
                elif isinstance(val, ast.Call) and _is_name(val.func, "remove_kwarg_if_default"):
                    src = val.args[0]
                    meth_node = val.args[1]
                    key = str(_const(val.args[2]))
                    meths = br.calls if _is_attr(meth_node, "call", "name") else [str(_const(meth_node))]
                    defaults = {_default_of(m, key) for m in meths}
                    if len(defaults) != 1:
                        raise TableError(f"ambiguous default for {key} in {meths}")
                    if isinstance(src, ast.Name) and src.id in env:
                        k = env[src.id].copy()
                    elif isinstance(src, ast.Call) and _is_name(src.func, "dict") and src.args \
                            and _is_attr(src.args[0], "call", "kwargs"):
                        k = Keys()  # only what was passed by keyword; absent == default
                    else:
                        raise TableError(f"unrecognised source of remove_kwarg_if_default at line {st.lineno}")
                    k.always.pop(key, None)
                    k.elided[key] = (defaults.pop(), key)
                    env[name] = k
                elif isinstance(val, ast.Dict):
                    env[name] = _eval_dict(val, env, br.calls)
                elif isinstance(val, ast.Call) and isinstance(val.func, ast.Attribute) \
                        and val.func.attr == "_to_abstract_repr":
                    k = Keys()
                    k.pulse = True
                    env[name] = k
                else:
                    env[name] = None  # not a tracked dict (targets, qubit ids, …)
            continue
        if isinstance(st, ast.AnnAssign):
            continue
        if isinstance(st, ast.Expr) and isinstance(st.value, ast.Call):
            c = st.value
            if isinstance(c.func, ast.Attribute) and c.func.attr == "append" and _is_name(c.func.value, "operations"):
                arg = c.args[0]
                if isinstance(arg, ast.Dict):
                    keys = _eval_dict(arg, env, br.calls)
                elif isinstance(arg, ast.Name) and env.get(arg.id) is not None:
                    keys = env[arg.id].copy()
                else:
                    raise TableError(f"unrecognised operations.append at line {st.lineno}")
                opname = keys.always.get("op", "")
                if not opname.startswith("="):
                    raise TableError(f"operation without constant 'op' at line {st.lineno}")
                br.ops.append((opname[1:], keys))
                continue
            if isinstance(c.func, ast.Attribute) and c.func.attr == "update" and isinstance(c.func.value, ast.Name) \
                    and c.func.value.id in env and c.args and isinstance(c.args[0], ast.Name) \
                    and getattr(env.get(c.args[0].id), "pulse", False):
                env[c.func.value.id].pulse = True
                continue
            continue
        if isinstance(st, ast.If):
            # `if "k" in data: op_dict["k"] = data["k"]`
            t = st.test
            if isinstance(t, ast.Compare) and isinstance(t.ops[0], ast.In) and isinstance(t.left, ast.Constant) \
                    and isinstance(t.comparators[0], ast.Name) and env.get(t.comparators[0].id) is not None \
                    and len(st.body) == 1 and isinstance(st.body[0], ast.Assign) \
                    and isinstance(st.body[0].targets[0], ast.Subscript) \
                    and isinstance(st.body[0].targets[0].value, ast.Name) \
                    and env.get(st.body[0].targets[0].value.id) is not None:
                key = str(t.left.value)
                src = env[t.comparators[0].id]
                dst = env[st.body[0].targets[0].value.id]
                if key in src.elided:
                    dst.elided[key] = src.elided[key]
                elif key in src.always:
                    dst.always[key] = src.always[key]
                continue
            # `if "detuning" not in pulse_abstract_repr: op_dict["op"] = "pulse_arbitrary_phase"`
            if isinstance(t, ast.Compare) and isinstance(t.ops[0], ast.NotIn) and isinstance(t.left, ast.Constant) \
                    and isinstance(t.comparators[0], ast.Name) \
                    and getattr(env.get(t.comparators[0].id), "pulse", False):
                for s2 in st.body:
                    if isinstance(s2, ast.Assign) and isinstance(s2.targets[0], ast.Subscript) \
                            and isinstance(s2.targets[0].slice, ast.Constant) and s2.targets[0].slice.value == "op":
                        env.setdefault("__variants__", []).append(
                            (str(t.left.value), str(_const(s2.value)), s2.targets[0].value.id))
                continue
            # any other conditional: both arms contribute
            env_a = dict(env)
            _walk_encoder_body(st.body, env_a, br)
            env_b = dict(env)
            _walk_encoder_body(st.orelse, env_b, br)
            for k, v in list(env_a.items()) + list(env_b.items()):
                env.setdefault(k, v)
            continue
        if isinstance(st, ast.Raise):
            continue
        # anything else (nested defs, for loops over the register …) is not part of the op table
        for sub in ast.iter_child_nodes(st):
            if isinstance(sub, ast.stmt):
                _walk_encoder_body([sub], env, br)


def extract_encoder():
    from pulser.json.abstract_repr import serializer
    from pulser.json.abstract_repr.signatures import SIGNATURES

    tree, path = _src(serializer)
    fn = _func(tree, "serialize_abstract_sequence")
    loop = None
    for node in ast.walk(fn):
        if isinstance(node, ast.For) and isinstance(node.target, ast.Name) and node.target.id == "call":
            loop = node
    if loop is None or not loop.body or not isinstance(loop.body[0], ast.If):
        raise TableError("the `for call in …` loop of serialize_abstract_sequence was not found")
    # top-level keys of the initial `res` literal
    top_always = []
    for node in ast.walk(fn):
        if isinstance(node, (ast.Assign, ast.AnnAssign)):
            tgt = node.targets[0] if isinstance(node, ast.Assign) else node.target
            if _is_name(tgt, "res") and isinstance(node.value, ast.Dict):
                top_always = [str(_const(k)) for k in node.value.keys]
    if not top_always:
        raise TableError("the initial `res` literal was not found")
    branches: list[EncoderBranch] = []
    node = loop.body[0]
    while True:
        calls = _branch_calls(node.test)
        br = EncoderBranch(calls)
        env: dict = {}
        _walk_encoder_body(node.body, env, br)
        # pulse variants
        new_ops = []
        for opname, keys in br.ops:
            if keys.pulse:
                sig = SIGNATURES["Pulse"]
                base = keys.copy()
                for k in sig.all_pos_args():
                    base.always[k] = f"pulse.{k}"
                new_ops.append((opname, base))
                for (absent, newname, _dict) in env.get("__variants__", []):
                    sigv = SIGNATURES["Pulse.ArbitraryPhase"]
                    if absent in sigv.all_pos_args():
                        raise TableError("Pulse.ArbitraryPhase signature has the discriminating key")
                    alt = keys.copy()
                    alt.always["op"] = f"={newname}"
                    for k in sigv.all_pos_args():
                        alt.always[k] = f"pulse.{k}"
                    new_ops.append((newname, alt))
            else:
                new_ops.append((opname, keys))
        br.ops = new_ops
        branches.append(br)
        if len(node.orelse) == 1 and isinstance(node.orelse[0], ast.If):
            node = node.orelse[0]
        else:
            break
    return branches, top_always, path


# --------------------------------------------------------------------------------------
# decoder
# --------------------------------------------------------------------------------------
class DecoderBranch:
    def __init__(self, op: str):
        self.op = op
        self.required: list[str] = []
        self.optional: dict[str, str] = {}
        self.method = ""
        self.param_of: dict[str, str] = {}   # key -> parameter of the Sequence method


def _op_reads(node, var="op"):
    req, opt = [], {}
    for n in ast.walk(node):
        if isinstance(n, ast.Subscript) and _is_name(n.value, var) and isinstance(n.slice, ast.Constant):
            if n.slice.value not in req:
                req.append(str(n.slice.value))
        if isinstance(n, ast.Call) and isinstance(n.func, ast.Attribute) and n.func.attr == "get" \
                and _is_name(n.func.value, var) and n.args:
            key = str(_const(n.args[0]))
            opt[key] = pyrepr(ast.literal_eval(n.args[1])) if len(n.args) > 1 else "None"
    return req, opt


def extract_decoder():
    from pulser.json.abstract_repr import deserializer
    from pulser.sequence.sequence import Sequence

    tree, path = _src(deserializer)
    fn = _func(tree, "_deserialize_operation")
    if not fn.body or not isinstance(fn.body[0], ast.If):
        raise TableError("_deserialize_operation does not start with the if/elif chain")
    branches = []
    node = fn.body[0]
    while True:
        t = node.test
        if not (isinstance(t, ast.Compare) and isinstance(t.ops[0], ast.Eq) and isinstance(t.left, ast.Subscript)
                and _is_name(t.left.value, "op") and _const(t.left.slice) == "op"):
            raise TableError(f"unrecognised test of the decoder chain at line {t.lineno}")
        br = DecoderBranch(str(_const(t.comparators[0])))
        body_mod = ast.Module(body=node.body, type_ignores=[])
        br.required, br.optional = _op_reads(body_mod)
        br.required = ["op"] + [k for k in br.required if k != "op"]
        # local variables computed from keys (pulse branch): name -> keys read
        local_reads: dict[str, list[str]] = {}
        for st in ast.walk(body_mod):
            if isinstance(st, ast.Assign) and isinstance(st.targets[0], ast.Name):
                r, o = _op_reads(st.value)
                local_reads.setdefault(st.targets[0].id, [])
                for k in r + list(o):
                    if k not in local_reads[st.targets[0].id]:
                        local_reads[st.targets[0].id].append(k)
        calls = [n for n in ast.walk(body_mod) if isinstance(n, ast.Call) and isinstance(n.func, ast.Attribute)
                 and _is_name(n.func.value, "seq")]
        methods = {c.func.attr for c in calls}
        if len(methods) != 1:
            raise TableError(f"decoder branch {br.op}: expected one Sequence method, found {sorted(methods)}")
        br.method = methods.pop()
        sig = inspect.signature(getattr(Sequence, br.method))
        pos_params = [p for p in list(sig.parameters)[1:]]
        c = calls[0]

        def keys_of(v):
            r, o = _op_reads(v)
            ks = r + list(o)
            if not ks and isinstance(v, ast.Name) and v.id in local_reads:
                ks = local_reads[v.id]
            return ks

        for i, a in enumerate(c.args):
            if isinstance(a, ast.Starred):
                pname = next((p.name for p in sig.parameters.values() if p.kind == p.VAR_POSITIONAL), "*")
                for k in keys_of(a.value):
                    br.param_of[k] = "*" + pname
            else:
                for k in keys_of(a):
                    br.param_of[k] = pos_params[i] if i < len(pos_params) else f"#{i}"
        for kw in c.keywords:
            for k in keys_of(kw.value):
                br.param_of.setdefault(k, kw.arg or "**")
        branches.append(br)
        if len(node.orelse) == 1 and isinstance(node.orelse[0], ast.If):
            node = node.orelse[0]
        else:
            if node.orelse:
                raise TableError("decoder chain ends with an else branch (not modelled)")
            break
    # top level
    top = _func(tree, "deserialize_abstract_sequence")
    req, opt = [], []
    for n in ast.walk(top):
        if isinstance(n, ast.Subscript) and _is_name(n.value, "obj") and isinstance(n.slice, ast.Constant):
            if n.slice.value not in req:
                req.append(str(n.slice.value))
        if isinstance(n, ast.Compare) and isinstance(n.ops[0], ast.In) and isinstance(n.left, ast.Constant) \
                and _is_name(n.comparators[0], "obj"):
            if n.left.value not in opt:
                opt.append(str(n.left.value))
    req = [k for k in req if k not in opt]
    return branches, req, opt, path


# --------------------------------------------------------------------------------------
# schema
# --------------------------------------------------------------------------------------
def extract_schema():
    import pulser.json.abstract_repr as ar

    path = Path(ar.__file__).parent / "schemas" / "sequence-schema.json"
    sch = json.loads(path.read_text())
    defs = sch["definitions"]
    ops = {}
    for ref in defs["Operation"]["anyOf"]:
        name = ref["$ref"].split("/")[-1]
        d = defs[name]
        opname = d["properties"]["op"].get("const")
        if opname is None:
            raise TableError(f"schema definition {name} has no constant op")
        ops[opname] = dict(name=name, required=list(d.get("required", [])), props=sorted(d.get("properties", {})),
                           closed=d.get("additionalProperties") is False)
    alts = defs["PulserSequence"]["anyOf"]
    common_required = sorted(set.intersection(*[set(a.get("required", [])) for a in alts]))
    any_required = sorted(set.union(*[set(a.get("required", [])) for a in alts]))
    props = sorted(set.union(*[set(a.get("properties", {})) for a in alts]))
    return ops, common_required, any_required, props, str(path)


# --------------------------------------------------------------------------------------
# expression operators (probing the live objects)
# --------------------------------------------------------------------------------------
def extract_expr_ops():
    """method of OpSupport -> name of the abstract expression its result serialises to
    ('!<Error>' when it cannot be serialised); names the decoder accepts; schema enums."""
    import warnings

    import pulser.json.abstract_repr as ar
    from pulser.json.abstract_repr.deserializer import _deserialize_parameter
    from pulser.json.abstract_repr.serializer import AbstractReprEncoder
    from pulser.parametrized import Variable
    from pulser.parametrized.paramobj import OpSupport

    var = Variable("x", float, size=2)
    item = var[0]
    rows = []
    for name, f in sorted(vars(OpSupport).items()):
        if not callable(f) or name in ("__module__", "__doc__"):
            continue
        n_params = len(inspect.signature(f).parameters)
        try:
            with warnings.catch_warnings():
                warnings.simplefilter("ignore")
                obj = f(item) if n_params == 1 or name == "__round__" else f(item, 2)
                js = json.loads(json.dumps(obj, cls=AbstractReprEncoder))
            emitted = js.get("expression", "?")
        except Exception as e:  # noqa: BLE001
            emitted = f"!{type(e).__name__}"
        rows.append((name, emitted))
    path = Path(ar.__file__).parent / "schemas" / "sequence-schema.json"
    defs = json.loads(path.read_text())["definitions"]
    unary = list(defs["ExprUnary"]["properties"]["expression"]["enum"])
    binary = list(defs["ExprBinary"]["properties"]["expression"]["enum"])
    accepted = []
    for e in unary + binary + sorted({r[1] for r in rows if not r[1].startswith("!")}):
        if e in accepted:
            continue
        doc = {"expression": e, "lhs": {"variable": "x"}}
        if e not in unary:
            doc["rhs"] = 1
        try:
            with warnings.catch_warnings():
                warnings.simplefilter("ignore")
                _deserialize_parameter(doc, {"x": var})
            accepted.append(e)
        except Exception:  # noqa: BLE001
            pass
    return rows, accepted, unary, binary


# --------------------------------------------------------------------------------------
# tables
# --------------------------------------------------------------------------------------
def build_tables() -> dict:
    from pulser.sequence.sequence import Sequence

    enc, top_always, enc_path = extract_encoder()
    dec, top_req, top_opt, dec_path = extract_decoder()
    sch_ops, sch_common, sch_any, sch_props, sch_path = extract_schema()
    dec_by_op = {b.op: b for b in dec}
    rows = []
    top_written = []
    covered_calls = []
    for br in enc:
        covered_calls += br.calls
        for k in br.top:
            if k not in top_written:
                top_written.append(k)
        for opname, keys in br.ops:
            d = dec_by_op.get(opname)
            s = sch_ops.get(opname)
            method = d.method if d else ""
            mdefaults = []
            if method:
                sig = inspect.signature(getattr(Sequence, method))
                mdefaults = [(p.name, pyrepr(p.default)) for p in list(sig.parameters.values())[1:]
                             if p.default is not inspect.Parameter.empty]
            # encoder: key -> argument of the encoder's call; translate positional markers to names
            enc_param = []
            for k, a in list(keys.always.items()) + [(k, v[1]) for k, v in keys.elided.items()]:
                if k == "op" or not a or a.startswith("pulse."):
                    continue
                names = set()
                for m in br.calls:
                    ps = list(inspect.signature(getattr(Sequence, m)).parameters.values())[1:]
                    if a.startswith("*"):
                        idx = a[1:]
                        if idx.isdigit() and int(idx) < len(ps):
                            names.add(ps[int(idx)].name)
                        else:
                            vp = next((p.name for p in ps if p.kind == p.VAR_POSITIONAL), None)
                            names.add("*" + (vp or "args"))
                    else:
                        names.add(a)
                if len(names) == 1:
                    enc_param.append((k, names.pop()))
            rows.append(dict(
                op=opname, calls=list(br.calls),
                emitted=list(keys.always),
                elided=[(k, v[0]) for k, v in keys.elided.items()],
                dec_required=list(d.required) if d else [],
                dec_optional=list(d.optional.items()) if d else [],
                method=method, method_defaults=mdefaults,
                enc_param=enc_param,
                dec_param=sorted(d.param_of.items()) if d else [],
                schema_def=s["name"] if s else "",
                schema_required=s["required"] if s else [],
                schema_props=s["props"] if s else [],
                schema_closed=bool(s and s["closed"]),
            ))
    # abstract operations known to the decoder / schema but never produced by the encoder
    produced = {r["op"] for r in rows}
    orphan_dec = sorted(set(dec_by_op) - produced)
    orphan_schema = sorted(set(sch_ops) - produced)
    # every storing method of Sequence is covered by some encoder branch
    import pulser.sequence._decorators as deco  # noqa: F401
    seq_tree, _ = _src(__import__("pulser.sequence.sequence", fromlist=["x"]))
    stored = []
    for node in ast.walk(seq_tree):
        if isinstance(node, ast.FunctionDef) and not node.name.startswith("_"):
            decs = [ast.unparse(d) for d in node.decorator_list]
            if any(d.endswith("store") for d in decs):
                stored.append(node.name)
    manual = ["declare_channel", "enable_eom_mode", "modify_eom_setpoint", "set_magnetic_field"]
    uncovered = sorted(set(stored + manual) - set(covered_calls))
    top = dict(
        always=top_always + [k for k in ["device"] if k in top_written and k not in top_always],
        conditional=[k for k in top_written if k not in top_always and k != "device"],
        dec_required=top_req, dec_conditional=top_opt,
        schema_required=sch_common, schema_required_any=sch_any, schema_props=sch_props,
    )
    expr_rows, expr_accepted, expr_unary, expr_binary = extract_expr_ops()
    return dict(rows=rows, top=top, orphan_dec=orphan_dec, orphan_schema=orphan_schema,
                expr_rows=expr_rows, expr_accepted=expr_accepted, expr_unary=expr_unary, expr_binary=expr_binary,
                uncovered_calls=uncovered, stored_calls=sorted(set(stored + manual)),
                sources=dict(encoder=enc_path, decoder=dec_path, schema=sch_path))


# --------------------------------------------------------------------------------------
# rendering
# --------------------------------------------------------------------------------------
def _s(x: str) -> str:
    return '"' + x.replace("\\", "\\\\").replace('"', '\\"') + '"'


def _ls(xs) -> str:
    return "[" + ", ".join(_s(x) for x in xs) + "]"


def _lp(xs) -> str:
    return "[" + ", ".join(f"({_s(a)}, {_s(b)})" for a, b in xs) + "]"


def render(t: dict) -> str:
    out = []
    out.append("/-\n  GENERATED by harness/tables_c04.py (ast + inspect.signature + json.load) from the live\n"
               "  pulser-core/pulser/json/abstract_repr/{serializer,deserializer}.py, the live `Sequence`\n"
               "  signatures and schemas/sequence-schema.json — do not edit.\n"
               "  Regenerated at the start of every `./check C04` run (written only when the content changes).\n-/\n"
               "namespace Pulser\nnamespace Generated\nnamespace AbstractOps\n")
    out.append(textwrap.dedent("""\
        /-- One abstract operation as produced by one branch of `serialize_abstract_sequence`. -/
        structure OpRow where
          op : String                              -- value of the "op" key
          calls : List String                      -- Sequence calls (`_Call.name`) this branch handles
          emitted : List String                    -- keys always written
          elided : List (String × String)          -- keys removed when equal to this default (python literal)
          decRequired : List String                -- keys `_deserialize_operation` reads as `op["k"]`
          decOptional : List (String × String)     -- keys read as `op.get("k", default)`
          method : String                          -- Sequence method the decoder calls
          methodDefaults : List (String × String)  -- defaults of that live method
          encParam : List (String × String)        -- key ↦ argument of the stored call it carries
          decParam : List (String × String)        -- key ↦ parameter of `method` it is passed to
          schemaDef : String
          schemaRequired : List String
          schemaProps : List String
          schemaClosed : Bool                      -- additionalProperties: false
          deriving DecidableEq, Repr
        """))
    out.append("def table : List OpRow := [")
    rows = []
    for r in t["rows"]:
        rows.append(
            "  { op := " + _s(r["op"]) + ", calls := " + _ls(r["calls"]) + ",\n"
            "    emitted := " + _ls(r["emitted"]) + ", elided := " + _lp(r["elided"]) + ",\n"
            "    decRequired := " + _ls(r["dec_required"]) + ", decOptional := " + _lp(r["dec_optional"]) + ",\n"
            "    method := " + _s(r["method"]) + ", methodDefaults := " + _lp(r["method_defaults"]) + ",\n"
            "    encParam := " + _lp(r["enc_param"]) + ",\n    decParam := " + _lp(r["dec_param"]) + ",\n"
            "    schemaDef := " + _s(r["schema_def"]) + ", schemaRequired := " + _ls(r["schema_required"]) + ",\n"
            "    schemaProps := " + _ls(r["schema_props"]) + ", schemaClosed := "
            + ("true" if r["schema_closed"] else "false") + " }")
    out.append(",\n".join(rows))
    out.append("]\n")
    top = t["top"]
    out.append("/-- Top-level keys of the document: always written / written by some call only. -/")
    out.append(f"def topAlways : List String := {_ls(top['always'])}")
    out.append(f"def topConditional : List String := {_ls(top['conditional'])}")
    out.append("/-- Top-level keys `deserialize_abstract_sequence` reads unconditionally / after `\"k\" in obj`. -/")
    out.append(f"def topDecRequired : List String := {_ls(top['dec_required'])}")
    out.append(f"def topDecConditional : List String := {_ls(top['dec_conditional'])}")
    out.append("/-- Schema of the document: keys required by every alternative / by some alternative / allowed. -/")
    out.append(f"def topSchemaRequired : List String := {_ls(top['schema_required'])}")
    out.append(f"def topSchemaRequiredAny : List String := {_ls(top['schema_required_any'])}")
    out.append(f"def topSchemaProps : List String := {_ls(top['schema_props'])}")
    out.append("/-- Abstract operations the decoder / the schema know but no encoder branch produces. -/")
    out.append(f"def orphanDecoderOps : List String := {_ls(t['orphan_dec'])}")
    out.append(f"def orphanSchemaOps : List String := {_ls(t['orphan_schema'])}")
    out.append("/-- Stored Sequence calls (`@store` or stored by hand) / those no encoder branch handles. -/")
    out.append(f"def storedCalls : List String := {_ls(t['stored_calls'])}")
    out.append(f"def uncoveredCalls : List String := {_ls(t['uncovered_calls'])}")
    out.append("/-- Operators of parametrized objects (`OpSupport` methods): the abstract expression their result "
               "serialises to (`!Error` when serialisation raises). -/")
    out.append(f"def exprOps : List (String × String) := {_lp(t['expr_rows'])}")
    out.append("/-- Expression names `_deserialize_parameter` accepts (probed live). -/")
    out.append(f"def decoderExprs : List String := {_ls(t['expr_accepted'])}")
    out.append("/-- Expression names the schema allows (ExprUnary / ExprBinary). -/")
    out.append(f"def schemaUnary : List String := {_ls(t['expr_unary'])}")
    out.append(f"def schemaBinary : List String := {_ls(t['expr_binary'])}")
    out.append("\nend AbstractOps\nend Generated\nend Pulser\n")
    return "\n".join(out)


def regenerate() -> tuple[dict, bool]:
    try:
        tabs = build_tables()
    except TableError:
        raise
    except Exception as e:  # noqa: BLE001
        raise TableError(f"table extraction failed with {type(e).__name__}: {str(e)[:400]}") from e
    text = render(tabs)
    GENERATED.parent.mkdir(parents=True, exist_ok=True)
    old = GENERATED.read_text() if GENERATED.exists() else None
    if old != text:
        tmp = GENERATED.with_suffix(".lean.tmp")
        tmp.write_text(text)
        tmp.replace(GENERATED)
        return tabs, True
    return tabs, False


if __name__ == "__main__":
    common.import_guard()
    tabs, ch = regenerate()
    print("changed" if ch else "unchanged", GENERATED)
    for r in tabs["rows"]:
        print(r["op"], r["calls"], "emitted", r["emitted"], "elided", r["elided"], "| dec", r["dec_required"],
              r["dec_optional"], r["method"])
    print(tabs["top"])
    print(tabs["expr_rows"]); print(tabs["expr_accepted"])
    print("orphans", tabs["orphan_dec"], tabs["orphan_schema"], "uncovered", tabs["uncovered_calls"])
