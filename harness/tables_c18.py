"""C18 translator: live `pulser/sequence/helpers/_switch_device.py` -> lean/PulserModel/Generated/StrictParams.lean

Everything is read with `ast` from the source file of the tree under test *now* (common.REPO), on
every run; nothing is imported or executed.  What is extracted:

* every comparison `<something of old_ch_obj> ==/!=/is <the same thing of new_ch_obj>` inside
  `check_channels_match` whose failure makes the function return a non-empty error message, together
  with the guards (enclosing `if` tests) under which it is evaluated:
    - named matches (`basis_match = old_ch_obj.basis == new_ch_obj.basis`, used in
      `if not (type_match and basis_match and addressing_match): return ...`),
    - direct tests (`if new_ch_obj.eom_config.mod_bandwidth != cast(..., old_ch_obj.eom_config).mod_bandwidth`),
    - the loop `for param_ in params_to_check: if getattr(new_ch_obj, param_) != getattr(old_ch_obj, param_)`
      expanded with the `params_to_check = [...]` literal and every `params_to_check.append("...")` /
      `.extend([...])` of literals (with the guard of the `if` it sits in),
    - the whole-EOM-config comparison of the parametrized branch (`new_eom_config != old_eom_config`,
      both built with `dataclasses.asdict(<x>.eom_config)`) and the keys popped from it;
* presence tests `if new_ch_obj.eom_config is None: return <error>` (parameter `eom_config`);
* the body of `check_retarget` (normalised source text of the returned expression);
* the post-replay sample comparison of `build_sequence_from_matching` (`np.isclose(current_samples.X,
  new_samples.X)` under `if strict: for eom_channel in active_eom_channels`);
* the names of the calls whose channel argument is renamed by the replay, and the exception type
  caught around the replay.

`strictParams` is the flat list of parameter names compared when `strict=True` on a non-parametrized
sequence (guards that can be true in that situation).  A source that no longer has the expected
shape raises `TableError` (the table cannot be extracted -> broken tie).
"""
from __future__ import annotations

import ast
from pathlib import Path

import common

SOURCE_REL = Path("pulser-core/pulser/sequence/helpers/_switch_device.py")
GENERATED = common.LEAN_DIR / "PulserModel" / "Generated" / "StrictParams.lean"


class TableError(Exception):
    """The table cannot be extracted from the source as it is now (broken tie)."""


def source_path() -> Path:
    return common.REPO / SOURCE_REL


# --------------------------------------------------------------------------------------
# helpers
# --------------------------------------------------------------------------------------
def _find_func(node: ast.AST, name: str) -> ast.FunctionDef:
    for n in ast.walk(node):
        if isinstance(n, ast.FunctionDef) and n.name == name:
            return n
    raise TableError(f"function {name} not found in {SOURCE_REL}")


def _strip_cast(e: ast.expr) -> ast.expr:
    """cast(T, x) -> x ;  typing.cast(T, x) -> x"""
    while (isinstance(e, ast.Call) and len(e.args) == 2 and not e.keywords
           and ((isinstance(e.func, ast.Name) and e.func.id == "cast")
                or (isinstance(e.func, ast.Attribute) and e.func.attr == "cast"))):
        e = e.args[1]
    return e


def _side(e: ast.expr, loopvars: dict[str, str]):
    """An expression about old_ch_obj / new_ch_obj -> (which, path) or None.
    path: dotted attribute path; `type(x)` -> 'type'; `getattr(x, v)` -> '<v>' for a loop variable."""
    e = _strip_cast(e)
    if isinstance(e, ast.Call) and isinstance(e.func, ast.Name) and e.func.id == "type" and len(e.args) == 1:
        inner = _side(e.args[0], loopvars)
        if inner is None:
            return None
        return inner[0], (inner[1] + "." if inner[1] else "") + "type"
    if isinstance(e, ast.Call) and isinstance(e.func, ast.Name) and e.func.id == "getattr" and len(e.args) == 2:
        inner = _side(e.args[0], loopvars)
        a = e.args[1]
        if inner is None:
            return None
        if isinstance(a, ast.Constant) and isinstance(a.value, str):
            leaf = a.value
        elif isinstance(a, ast.Name) and a.id in loopvars:
            leaf = f"<{a.id}>"
        else:
            return None
        return inner[0], (inner[1] + "." if inner[1] else "") + leaf
    if isinstance(e, ast.Attribute):
        inner = _side(e.value, loopvars)
        if inner is None:
            return None
        return inner[0], (inner[1] + "." if inner[1] else "") + e.attr
    if isinstance(e, ast.Name):
        if e.id == "old_ch_obj":
            return "old", ""
        if e.id == "new_ch_obj":
            return "new", ""
    return None


def _compare_path(e: ast.expr, loopvars: dict[str, str]):
    """`old.X op new.X` -> (X, op name) or None."""
    if not (isinstance(e, ast.Compare) and len(e.ops) == 1 and len(e.comparators) == 1):
        return None
    op = type(e.ops[0]).__name__
    if op not in ("Eq", "NotEq", "Is", "IsNot"):
        return None
    a, b = _side(e.left, loopvars), _side(e.comparators[0], loopvars)
    if a is None or b is None or {a[0], b[0]} != {"old", "new"} or a[1] != b[1] or not a[1]:
        return None
    return a[1], op


def _returns_error(body: list[ast.stmt]) -> bool:
    """Does the block return a tuple with a non-empty string literal (an error message)?"""
    for st in body:
        for n in ast.walk(st):
            if isinstance(n, ast.Return) and isinstance(n.value, ast.Tuple):
                for el in n.value.elts:
                    if isinstance(el, ast.JoinedStr):
                        return True
                    if isinstance(el, ast.Constant) and isinstance(el.value, str) and el.value:
                        return True
    return False


def _raises(body: list[ast.stmt]) -> bool:
    return any(isinstance(n, ast.Raise) for st in body for n in ast.walk(st))


def _norm(e: ast.expr) -> str:
    return ast.unparse(e).replace("\n", " ")


# --------------------------------------------------------------------------------------
# extraction
# --------------------------------------------------------------------------------------
class _Matcher(ast.NodeVisitor):
    """Walk `check_channels_match`, keeping the stack of guards."""

    def __init__(self):
        self.guards: list[str] = []
        self.named: dict[str, tuple[str, str]] = {}       # match variable -> (path, op)
        self.compared: list[tuple[str, tuple[str, ...]]] = []  # (path, guards)
        self.lists: dict[str, list[tuple[str, tuple[str, ...]]]] = {}  # list var -> [(item, guards)]
        self.loopvars: dict[str, str] = {}                # loop variable -> list variable
        self.asdict: dict[str, str] = {}                  # dict var -> 'old'/'new' (asdict of eom_config)
        self.popped: list[tuple[str, tuple[str, ...]]] = []
        self.whole_eom: list[tuple[str, ...]] = []

    # -- statements -----------------------------------------------------------------
    def visit_Assign(self, node: ast.Assign):
        if len(node.targets) == 1 and isinstance(node.targets[0], ast.Name):
            name = node.targets[0].id
            cp = _compare_path(node.value, self.loopvars)
            if cp is not None:
                self.named[name] = cp
                return
            if isinstance(node.value, ast.List) and all(
                isinstance(x, ast.Constant) and isinstance(x.value, str) for x in node.value.elts
            ):
                self.lists[name] = [(x.value, tuple(self.guards)) for x in node.value.elts]
                return
            v = node.value
            if (isinstance(v, ast.Call) and isinstance(v.func, ast.Attribute) and v.func.attr == "asdict"
                    and len(v.args) == 1):
                s = _side(v.args[0], self.loopvars)
                if s is not None and s[1] == "eom_config":
                    self.asdict[name] = s[0]
                    return
        self.generic_visit(node)

    def visit_Expr(self, node: ast.Expr):
        v = node.value
        if isinstance(v, ast.Call) and isinstance(v.func, ast.Attribute) and isinstance(v.func.value, ast.Name):
            tgt, meth = v.func.value.id, v.func.attr
            if meth == "append" and tgt in self.lists:
                if not (len(v.args) == 1 and isinstance(v.args[0], ast.Constant) and isinstance(v.args[0].value, str)):
                    raise TableError(f"{tgt}.append with a non-literal argument: {_norm(v)}")
                self.lists[tgt].append((v.args[0].value, tuple(self.guards)))
                return
            if meth == "extend" and tgt in self.lists:
                a = v.args[0] if len(v.args) == 1 else None
                if not (isinstance(a, (ast.List, ast.Tuple)) and all(
                        isinstance(x, ast.Constant) and isinstance(x.value, str) for x in a.elts)):
                    raise TableError(f"{tgt}.extend with a non-literal argument: {_norm(v)}")
                self.lists[tgt].extend((x.value, tuple(self.guards)) for x in a.elts)
                return
            if meth in ("insert", "remove", "pop", "clear") and tgt in self.lists:
                raise TableError(f"unsupported mutation of {tgt}: {_norm(v)}")
            if meth == "pop" and tgt in self.asdict and v.args and isinstance(v.args[0], ast.Constant):
                self.popped.append((f"{self.asdict[tgt]}:{v.args[0].value}", tuple(self.guards)))
                return
        self.generic_visit(node)

    def visit_AugAssign(self, node: ast.AugAssign):
        if isinstance(node.target, ast.Name) and node.target.id in self.lists:
            raise TableError(f"unsupported mutation of {node.target.id}: {_norm(node)}")
        self.generic_visit(node)

    def _test_paths(self, test: ast.expr) -> list[str]:
        """Paths whose inequality makes `test` true (the error branch)."""
        out: list[str] = []
        # if not (a_match and b_match ...)
        if isinstance(test, ast.UnaryOp) and isinstance(test.op, ast.Not):
            inner = test.operand
            names = inner.values if isinstance(inner, ast.BoolOp) and isinstance(inner.op, ast.And) else [inner]
            for n in names:
                if isinstance(n, ast.Name) and n.id in self.named and self.named[n.id][1] in ("Eq", "Is"):
                    out.append(self.named[n.id][0])
                else:
                    cp = _compare_path(n, self.loopvars)
                    if cp is not None and cp[1] in ("Eq", "Is"):
                        out.append(cp[0])
            return out
        terms = test.values if isinstance(test, ast.BoolOp) and isinstance(test.op, ast.Or) else [test]
        for t in terms:
            cp = _compare_path(t, self.loopvars)
            if cp is not None and cp[1] in ("NotEq", "IsNot"):
                out.append(cp[0])
        return out

    def _presence(self, test: ast.expr) -> str | None:
        """`new_ch_obj.X is None` -> 'X' (the new channel must have X)."""
        if (isinstance(test, ast.Compare) and len(test.ops) == 1 and isinstance(test.ops[0], ast.Is)
                and isinstance(test.comparators[0], ast.Constant) and test.comparators[0].value is None):
            sd = _side(test.left, self.loopvars)
            if sd is not None and sd[0] == "new" and sd[1]:
                return sd[1]
        return None

    def visit_If(self, node: ast.If):
        paths = self._test_paths(node.test)
        pres = self._presence(node.test)
        if pres is not None and _returns_error(node.body):
            paths = paths + [pres]
        if paths and _returns_error(node.body):
            for p in paths:
                self.compared.append((p, tuple(self.guards)))
        # whole EOM config:  if new_eom_config != old_eom_config: return error
        t = node.test
        if (isinstance(t, ast.Compare) and len(t.ops) == 1 and isinstance(t.ops[0], ast.NotEq)
                and isinstance(t.left, ast.Name) and isinstance(t.comparators[0], ast.Name)
                and {self.asdict.get(t.left.id), self.asdict.get(t.comparators[0].id)} == {"old", "new"}
                and _returns_error(node.body)):
            self.whole_eom.append(tuple(self.guards))
        g = _norm(node.test)
        self.guards.append(g)
        self.block(node.body)
        self.guards.pop()
        self.guards.append(f"not ({g})")
        self.block(node.orelse)
        self.guards.pop()
        # an `if` whose body always returns guards the rest of the enclosing block with its negation
        if node.body and isinstance(node.body[-1], ast.Return) and not node.orelse:
            self.guards.append(f"not ({g})")

    def block(self, stmts: list[ast.stmt]):
        depth = len(self.guards)
        for st in stmts:
            self.visit(st)
        del self.guards[depth:]

    def visit_For(self, node: ast.For):
        if isinstance(node.target, ast.Name) and isinstance(node.iter, ast.Name) and node.iter.id in self.lists:
            self.loopvars[node.target.id] = node.iter.id
        self.block(node.body)
        self.block(node.orelse)

    def visit_FunctionDef(self, node: ast.FunctionDef):
        self.block(node.body)


def _guard_class(guards: tuple[str, ...]) -> tuple[bool, bool, list[str]]:
    """-> (possible when strict and not parametrized, possible when not strict, remaining guards)"""
    strict_ok, nonstrict_ok, rest = True, True, []
    for g in guards:
        if g == "strict":
            nonstrict_ok = False
        elif g in ("not (strict)", "not strict"):
            strict_ok = False
        elif g == "not (not strict)":
            nonstrict_ok = False
        elif g == "not seq.is_parametrized()":
            pass
        elif g == "not (not seq.is_parametrized())":
            strict_ok = False   # parametrized branch
            nonstrict_ok = False
        elif g.startswith("not (not (") and "_match" in g:
            pass                # fall-through after the early return of the type/basis/addressing test
        elif g == "not (new_ch_obj.eom_config is None)":
            pass                # fall-through after the early return "needs an EOM configuration"
        else:
            rest.append(g)
    return strict_ok, nonstrict_ok, rest


def extract(src: str | None = None) -> dict:
    if src is None:
        p = source_path()
        if not p.exists():
            raise TableError(f"{p} does not exist")
        src = p.read_text()
    try:
        tree = ast.parse(src)
    except SyntaxError as e:
        raise TableError(f"cannot parse {SOURCE_REL}: {e}")
    top = _find_func(tree, "switch_device")
    ccm = _find_func(top, "check_channels_match")
    m = _Matcher()
    m.visit(ccm)

    strict: list[str] = []
    nonstrict: list[str] = []
    guards: list[tuple[str, str]] = []
    parametrized: list[str] = []

    def add(path: str, gs: tuple[str, ...]):
        s_ok, n_ok, rest = _guard_class(gs)
        if "not (not seq.is_parametrized())" in gs:
            if path not in parametrized:
                parametrized.append(path)
            return
        if s_ok and path not in strict:
            strict.append(path)
            if rest:
                guards.append((path, " and ".join(rest)))
        if n_ok and path not in nonstrict:
            nonstrict.append(path)

    for path, gs in m.compared:
        if "<" in path:  # loop over a parameter list
            var = path[path.index("<") + 1: path.index(">")]
            lst = m.loopvars.get(var)
            if lst is None or lst not in m.lists:
                raise TableError(f"comparison over an unknown parameter list: {path}")
            for item, igs in m.lists[lst]:
                k = 0
                while k < min(len(gs), len(igs)) and gs[k] == igs[k]:
                    k += 1
                add(path.replace(f"<{var}>", item), gs + tuple(igs[k:]))
        else:
            add(path, gs)
    for gs in m.whole_eom:
        if "not (not seq.is_parametrized())" in gs and "eom_config.*" not in parametrized:
            parametrized.append("eom_config.*")
        elif "not (not seq.is_parametrized())" not in gs:
            add("eom_config.*", gs)
    if not any("<" in p for p, _ in m.compared):
        raise TableError("the loop comparing getattr(new_ch_obj, p) != getattr(old_ch_obj, p) was not found")
    if "params_to_check" not in m.lists:
        raise TableError("the `params_to_check = [...]` literal was not found")

    # check_retarget
    cr = _find_func(top, "check_retarget")
    rets = [n for n in ast.walk(cr) if isinstance(n, ast.Return) and n.value is not None]
    if len(rets) != 1:
        raise TableError("check_retarget: expected exactly one return")

    class _Uncast(ast.NodeTransformer):
        def visit_Call(self, node):
            self.generic_visit(node)
            return _strip_cast(node)

    retarget_src = _norm(_Uncast().visit(rets[0].value))

    # build_sequence_from_matching: sample comparison and renamed calls
    bsm = _find_func(top, "build_sequence_from_matching")
    sample_checks: list[str] = []
    for n in ast.walk(bsm):
        if isinstance(n, ast.If) and isinstance(n.test, ast.Name) and n.test.id == "strict":
            for f in ast.walk(n):
                if isinstance(f, ast.For) and isinstance(f.iter, ast.Name) and f.iter.id == "active_eom_channels":
                    for i in ast.walk(f):
                        if isinstance(i, ast.If) and _raises(i.body):
                            for c in ast.walk(i.test):
                                if (isinstance(c, ast.Call) and isinstance(c.func, ast.Attribute)
                                        and c.func.attr in ("isclose", "allclose", "array_equal") and len(c.args) >= 2
                                        and all(isinstance(a, ast.Attribute) for a in c.args[:2])
                                        and c.args[0].attr == c.args[1].attr):
                                    if c.args[0].attr not in sample_checks:
                                        sample_checks.append(c.args[0].attr)
    renamed: list[str] = []
    for n in ast.walk(bsm):
        if isinstance(n, ast.Compare) and isinstance(n.left, ast.Attribute) and n.left.attr == "name" \
                and isinstance(n.left.value, ast.Name) and n.left.value.id == "call" \
                and len(n.ops) == 1 and isinstance(n.ops[0], ast.Eq) \
                and isinstance(n.comparators[0], ast.Constant):
            v = n.comparators[0].value
            if v not in renamed:
                renamed.append(v)
        # `call.name in ("delay", "align")`
        if isinstance(n, ast.Compare) and isinstance(n.left, ast.Attribute) and n.left.attr == "name" \
                and isinstance(n.left.value, ast.Name) and n.left.value.id == "call" \
                and len(n.ops) == 1 and isinstance(n.ops[0], ast.In) \
                and isinstance(n.comparators[0], (ast.Tuple, ast.List, ast.Set)):
            for el in n.comparators[0].elts:
                if isinstance(el, ast.Constant) and el.value not in renamed:
                    renamed.append(el.value)
    # the call list that is replayed
    replayed = ""
    for n in ast.walk(bsm):
        if isinstance(n, ast.For) and isinstance(n.target, ast.Name) and n.target.id == "call":
            replayed = _norm(n.iter)
            break
    if not replayed:
        raise TableError("the replay loop `for call in ...` was not found")
    # exception type caught around the replay
    caught: list[str] = []
    for n in top.body:
        for t in ast.walk(n):
            if isinstance(t, ast.Try):
                for h in t.handlers:
                    caught.append(_norm(h.type) if h.type is not None else "BaseException")
    # device-level comparison under strict
    device_params: list[str] = []
    for n in ast.walk(top):
        if isinstance(n, ast.Assign) and len(n.targets) == 1 and isinstance(n.targets[0], ast.Name) \
                and n.targets[0].id == "interaction_param" and isinstance(n.value, ast.Constant):
            device_params.append(n.value.value)
    return dict(strict=strict, guards=guards, nonstrict=nonstrict, parametrized=parametrized,
                retarget_src=retarget_src, sample_checks=sample_checks, renamed=sorted(renamed),
                replayed=replayed, caught=caught, device_params=device_params,
                popped=sorted({p for p, _ in m.popped}))


# --------------------------------------------------------------------------------------
# rendering
# --------------------------------------------------------------------------------------
def _lstr(s: str) -> str:
    return '"' + s.replace("\\", "\\\\").replace('"', '\\"') + '"'


def _llist(xs) -> str:
    return "[" + ", ".join(_lstr(x) for x in xs) + "]"


def render(t: dict) -> str:
    s = []
    s.append("/-\n  GENERATED by harness/tables_c18.py (ast) from the live\n"
             "  pulser-core/pulser/sequence/helpers/_switch_device.py — do not edit.\n"
             "  Regenerated at the start of every `./check C18` run (written only when the content changes).\n-/\n")
    s.append("namespace Pulser\nnamespace Switch\nnamespace Generated\n\n")
    s.append("/-- Channel parameters whose inequality makes `check_channels_match` refuse a pair of channels when\n"
             "`strict=True` (non-parametrized sequence), in source order. -/\n")
    s.append(f"def strictParams : List String := {_llist(t['strict'])}\n\n")
    s.append("/-- Guard (other than `strict`) under which a parameter of `strictParams` is compared. -/\n")
    s.append("def strictGuards : List (String × String) := ["
             + ", ".join(f"({_lstr(a)}, {_lstr(b)})" for a, b in t["guards"]) + "]\n\n")
    s.append("/-- Parameters compared whether or not `strict` is set. -/\n")
    s.append(f"def nonStrictParams : List String := {_llist(t['nonstrict'])}\n\n")
    s.append("/-- Compared only when the sequence is parametrized (and `strict`). -/\n")
    s.append(f"def parametrizedParams : List String := {_llist(t['parametrized'])}\n\n")
    s.append("/-- Keys removed from the two EOM configurations before the parametrized comparison. -/\n")
    s.append(f"def eomPopped : List String := {_llist(t['popped'])}\n\n")
    s.append("/-- `check_retarget`: the returned expression (casts removed). -/\n")
    s.append(f"def checkRetargetSrc : String := {_lstr(t['retarget_src'])}\n\n")
    s.append("/-- Sample arrays of the EOM channels compared after the replay when `strict`. -/\n")
    s.append(f"def strictSampleChecks : List String := {_llist(t['sample_checks'])}\n\n")
    s.append("/-- Calls whose channel argument the replay renames. -/\n")
    s.append(f"def renamedCalls : List String := {_llist(t['renamed'])}\n\n")
    s.append("/-- The call list the replay iterates over. -/\n")
    s.append(f"def replayedCalls : String := {_lstr(t['replayed'])}\n\n")
    s.append("/-- Exception types caught around a replay (the next matching is tried). -/\n")
    s.append(f"def caughtByReplayLoop : List String := {_llist(t['caught'])}\n\n")
    s.append("/-- Device attributes compared under `strict` (Ising / XY mode). -/\n")
    s.append(f"def deviceParams : List String := {_llist(t['device_params'])}\n\n")
    s.append("end Generated\nend Switch\nend Pulser\n")
    return "".join(s)


def regenerate() -> tuple[dict, bool]:
    """Rebuild the table and rewrite StrictParams.lean when its content changes -> (table, changed)."""
    t = extract()
    text = render(t)
    GENERATED.parent.mkdir(parents=True, exist_ok=True)
    old = GENERATED.read_text() if GENERATED.exists() else None
    if old != text:
        tmp = GENERATED.with_suffix(".lean.tmp")
        tmp.write_text(text)
        tmp.replace(GENERATED)
        return t, True
    return t, False


if __name__ == "__main__":  # manual use: python harness/tables_c18.py
    import json

    t, ch = regenerate()
    print(json.dumps(t, indent=1))
    print("changed" if ch else "unchanged", GENERATED)
