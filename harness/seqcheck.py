"""Generic runner for the properties decided on the sequence/scheduler model
(C01 C02 C03 C07 C09 C10 C13 C15): proof obligations (lake build + axiom audit),
correspondence model<->implementation in lock step, direct monitors on the
implementation, violation search / known findings / evidence.
"""
from __future__ import annotations

import collections
import copy
import json
import os
import random
import time

import common
from common import (
    Driver,
    InfraError,
    Timer,
    load_known_findings,
    match_known,
    write_evidence,
    write_replay,
)


# --------------------------------------------------------------------------
# ownership of observables (DESIGN §3)
# --------------------------------------------------------------------------
LIMIT_ERRS = {
    "durTooShort", "durTooLong", "notResizable", "ampOverMax", "detOverMax", "avgAmpLow",
    "dmmPositive", "dmmBottom", "dmmTotalBottom", "overMaxSeq", "nonFinite",
}
TYPESTATE_ERRS = {
    "measured", "nameInUse", "notAvailable", "xyConflict", "notDeclared", "inEom", "notInEom",
    "alreadyInEom", "noTarget", "slmWaiting", "parametrized",
}


def owner_of(step) -> str:
    """Which property owns the observable on which model and implementation diverge."""
    why = step.why or ""
    k = step.op["k"]
    if why.startswith("verdict") or why.startswith("error class"):
        names = {step.model[1] if step.model[0] == "err" else None,
                 step.real[1] if step.real[0] == "err" else None}
        if names & TYPESTATE_ERRS:
            return "C13"
        if names & LIMIT_ERRS:
            return "C01"
        return "C13"
    if why.startswith("value"):
        return "C03" if k == "est" else "C02"
    # state divergence
    if step.real[0] == "err" or k in ("dur", "est", "pref"):
        return "C09"
    if "/refs" in why or why.endswith("/ph") or "/ph:" in why:
        # phase bookkeeping belongs to C07, except the drift corrections of EOM operations
        if step.op.get("corr") and k in ("addeom", "eomon", "eommod", "eomoff"):
            return "C15"
        return "C07"
    if "/eom" in why or "/inEom" in why:
        return "C15"
    if "/slots" in why:
        if k in ("eomon", "eommod", "eomoff"):
            return "C15"
        if k == "target" or (k == "declare" and step.op.get("init") is not None):
            return "C10"
        if k in ("add", "addeom", "adddmm", "align"):
            if "/dur" in why or "/dd" in why or "/const" in why or "/amp" in why or "/det" in why:
                return "C01" if "/dur" in why else "C15"
            return "C03"
        return "C02"
    if any(x in why for x in ("/xy", "/ising", "/empty", "/measured", "/chans:", "/name", "/id", "/dmm")):
        return "C13"
    if "/ncalls" in why:
        return "C09"
    return "C02"


# --------------------------------------------------------------------------
# running histories
# --------------------------------------------------------------------------
class Fail:
    def __init__(self, prop, clause, msg, key=None):
        self.prop, self.clause, self.msg = prop, clause, msg
        def plain(v):
            if isinstance(v, (str, type(None))):
                return v
            if hasattr(v, "item"):
                v = v.item()
            if isinstance(v, bool):
                return bool(v)
            if isinstance(v, int):
                return int(v)
            if isinstance(v, float):
                return float(v)
            return str(v)

        self.key = {k: plain(v) for k, v in dict(key or {}, clause=clause).items()}

    def __repr__(self):
        return f"{self.prop}/{self.clause}: {self.msg}"


class HistoryResult:
    def __init__(self):
        self.ops = []
        self.fails = []        # monitor failures (list of (step index, Fail))
        self.divergence = None  # (step index, owner, why, ambiguous)
        self.nsteps = 0


def run_history(drv, spec, ops_or_gen, exact, monitors, nops=None, stop_on_fail=True):
    """Run a history (list of ops, or a HistoryGen to draw from) in lock step."""
    from lockstep import Lockstep, is_float_ambiguous

    res = HistoryResult()
    ls = Lockstep(drv, spec, exact=exact)
    for m in monitors:
        m.begin(ls)
    gen = None if isinstance(ops_or_gen, list) else ops_or_gen
    n = len(ops_or_gen) if gen is None else nops
    for i in range(n):
        op = ops_or_gen[i] if gen is None else gen.next_op()
        res.ops.append(op)
        for m in monitors:
            m.pre(ls, op)
        st = ls.step(op)
        res.nsteps += 1
        if gen is not None:
            gen.feedback(op, st.real[0], ls.real)
        for m in monitors:
            for f in m.post(ls, st):
                res.fails.append((i, f))
        if st.diverged and res.divergence is None:
            amb = (not exact) and is_float_ambiguous(st)
            res.divergence = (i, owner_of(st), st.why, amb)
            ls.model_on = False      # keep going on the implementation only (monitors still run)
        if res.fails and stop_on_fail:
            break
    if not (res.fails and stop_on_fail):
        for m in monitors:
            for f in m.end(ls):
                res.fails.append((res.nsteps - 1, f))
    res.ls = ls
    return res


def shrink(drv, spec, ops, exact, monitors_factory, pred, budget=200):
    """Delta-debugging on the op list: keep removing ops while `pred(result)` holds."""
    ops = list(ops)
    tries = 0
    chunk = max(1, len(ops) // 2)
    while chunk >= 1 and tries < budget:
        i = 0
        changed = False
        while i < len(ops) and tries < budget:
            cand = ops[:i] + ops[i + chunk:]
            tries += 1
            try:
                r = run_history(drv, spec, cand, exact, monitors_factory())
                ok = pred(r)
            except InfraError:
                ok = False
            except Exception:
                ok = False
            if ok:
                ops = cand
                changed = True
            else:
                i += chunk
        if not changed:
            chunk //= 2
    return ops


def canonical(ops) -> str:
    return json.dumps(ops, sort_keys=True)
