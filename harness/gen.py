"""Structured generators: devices on a lattice of parameter values that hits every
rounding regime, and mode-aware histories over the public building API.

Every random choice comes from the one `random.Random` handed in.
"""
from __future__ import annotations

import random

CLOCKS = [1, 4, 8]
MIN_DURS = [1, 4, 16, 52]
BANDWIDTHS = [None, 2, 4, 10, 40]
PJTS = [None, 0, 40]
RETARGETS = [(0, 0), (220, 0), (220, 100), (100, 220)]


def gen_eom(rng: random.Random) -> dict:
    ctrl = rng.choice([["BLUE"], ["RED"], ["BLUE", "RED"], ["RED", "BLUE"]])
    return dict(
        mod_bandwidth=rng.choice([4, 20, 40, 60]),   # 4/20: EOMs slower than a 40 MHz channel (F32, F17)
        limiting_beam=rng.choice(["BLUE", "RED"]),
        max_limiting_amp=rng.choice([20.0, 40.0, 62.83]),
        intermediate_detuning=rng.choice([400.0, 700.0, 2800.0]),
        controlled_beams=ctrl,
        multiple_beam_control=rng.random() < 0.6,
        custom_buffer_time=rng.choice([None, None, 40, 240]),
        blue_shift_coeff=rng.choice([1.0, 1.0, 0.5, 2.0]),
        red_shift_coeff=rng.choice([1.0, 1.0, 0.25]),
    )


def gen_channel(rng: random.Random, kind: str, local: bool, virtual: bool) -> dict:
    clock = rng.choice(CLOCKS)
    min_d = rng.choice(MIN_DURS)
    bw = rng.choice(BANDWIDTHS)
    c = dict(kind=kind, local=local, clock_period=clock, min_duration=min_d, mod_bandwidth=bw)
    r = rng.random()
    if r < 0.25:
        c["max_duration"] = rng.choice([min_d + 60, 400, 1000, 1002, 4001])
    elif r < 0.35 and virtual:
        c["max_duration"] = None
    else:
        c["max_duration"] = int(1e8)
    if kind == "dmm":
        if rng.random() < 0.7:
            c["bottom_detuning"] = rng.choice([-10.0, -20.0, -5.5]) if rng.random() > 0.06 else 0.0
        if rng.random() < 0.5:
            c["total_bottom_detuning"] = rng.choice([-40.0, -100.0, -20.0])
            if c.get("bottom_detuning") is not None and c["bottom_detuning"] < c["total_bottom_detuning"]:
                c["total_bottom_detuning"] = c["bottom_detuning"] * 3
        return c
    c["custom_phase_jump_time"] = rng.choice(PJTS)
    if virtual and rng.random() < 0.3:
        c["max_amp"] = None
    else:
        c["max_amp"] = rng.choice([10.0, 15.7, 31.4])
    if virtual and (rng.random() < 0.3 or c["max_amp"] is None):
        # (max_amp undefined with max_abs_detuning defined cannot be put in a device on
        # this tree: Device._channel_lines formats max_amp whenever max_abs_detuning is
        # defined -- see C12)
        c["max_abs_detuning"] = None
    else:
        # (0: a channel that allows no detuning at all — a limit that is falsy, not absent)
        c["max_abs_detuning"] = rng.choice([20.0, 125.6, 62.8]) if rng.random() > 0.06 else 0.0
    if rng.random() < 0.3:
        c["min_avg_amp"] = rng.choice([0.5, 1.0])
    if local:
        a, b = rng.choice(RETARGETS)
        c["min_retarget_interval"], c["fixed_retarget_t"] = a, b
        c["max_targets"] = rng.choice([None, 1, 2, 3])
    if kind == "rydberg" and bw is not None and rng.random() < 0.6:
        c["eom"] = gen_eom(rng)
    return c


def gen_device(rng: random.Random, want: str = "any") -> dict:
    """want: any | eom | dmm | xy | local"""
    virtual = True
    chans = []
    n = rng.choice([1, 2, 2, 3, 3])
    xy = want == "xy" or (want == "any" and rng.random() < 0.08)
    for i in range(n):
        if xy and i == 0:
            chans.append(gen_channel(rng, "microwave", False, virtual))
            continue
        kind = rng.choice(["rydberg", "rydberg", "raman"])
        local = rng.random() < (0.6 if want == "local" else 0.4)
        chans.append(gen_channel(rng, kind, local, virtual))
    if want == "eom" and not any(c.get("eom") for c in chans):
        c = gen_channel(rng, "rydberg", rng.random() < 0.3, virtual)
        c["mod_bandwidth"] = c["mod_bandwidth"] or rng.choice([2, 4, 10])
        c["eom"] = gen_eom(rng)
        chans[0] = c
    if want == "local" and not any(c["local"] for c in chans):
        chans[0] = gen_channel(rng, rng.choice(["rydberg", "raman"]), True, virtual)
    ndmm = rng.choice([0, 1, 1, 2]) if want != "dmm" else rng.choice([1, 2])
    dmms = [gen_channel(rng, "dmm", False, virtual) for _ in range(ndmm)]
    spec = dict(
        channels=chans,
        dmms=dmms,
        nq=rng.choice([1, 2, 3, 4]),
        reusable=rng.random() < 0.4,
        max_seq=rng.choice([None, None, None, 2000, 6000, 20000]),
    )
    if want == "maxseq":
        # a device whose maximum sequence duration is reached within a few calls, with local channels
        # that take time to retarget and modulated channels that have fall times: every kind of call is
        # then tried right at the limit (delay, target, align, EOM buffers, pulses)
        spec["max_seq"] = rng.choice([300, 600, 1000, 1500])
        if not any(c["local"] for c in chans):
            chans[0] = gen_channel(rng, rng.choice(["rydberg", "raman"]), True, virtual)
        for c in chans:
            if c["local"] and rng.random() < 0.8:
                c["min_retarget_interval"], c["fixed_retarget_t"] = rng.choice([(220, 0), (220, 100), (100, 220), (400, 0)])
            if c.get("mod_bandwidth") is None and rng.random() < 0.6:
                c["mod_bandwidth"] = rng.choice([2, 4, 10])
    return spec


# --------------------------------------------------------------------------
# histories
# --------------------------------------------------------------------------
class Tracker:
    """What the generator believes about the sequence (updated from real results)."""

    def __init__(self, dev_spec: dict):
        self.spec = dev_spec
        self.declared: dict[str, dict] = {}
        self.measured = False
        self.next_user = 0
        self.shift_budget = 3.0
        self.ndmm_decl = {}

    def chan_names(self, pred=lambda c: True):
        return [n for n, c in self.declared.items() if pred(c)]


class HistoryGen:
    """Weighted grammar over the building API, ~80% valid calls."""

    def __init__(self, rng: random.Random, dev_spec: dict, exact: bool = True, profile: str = "mix",
                 p_invalid: float = 0.12):
        self.rng = rng
        self.spec = dev_spec
        self.exact = exact
        self.profile = profile
        self.p_invalid = p_invalid
        self.t = Tracker(dev_spec)

    # ---- values -----------------------------------------------------------
    def phase(self) -> float:
        r = self.rng
        if self.exact:
            return r.randrange(0, 17) / 8.0
        return r.choice([r.uniform(-10, 10), r.randrange(-20, 40) / 8.0, 0.0, 3.141592653589793,
                         6.283185307179586, r.choice([0.1, 0.2, 0.3, 0.7])])

    def shift(self) -> float:
        r = self.rng
        if self.exact:
            v = r.randrange(0, 9) / 16.0
            if v > self.t.shift_budget:
                return 0.0
            self.t.shift_budget -= v
            return v
        return r.choice([0.0, r.uniform(-7, 7), r.randrange(-16, 17) / 8.0, -0.5])

    def duration(self, c: dict | None) -> int:
        r = self.rng
        clock = c.get("clock_period", 1) if c else 1
        mn = c.get("min_duration", 1) if c else 1
        x = r.random()
        if x < 0.35:
            return clock * r.randrange(max(1, -(-mn // clock)), 60)
        if x < 0.7:
            return r.randrange(mn, mn + 3 * clock + 200)
        if x < 0.8:
            return r.randrange(1, mn + 2)
        mx = c.get("max_duration") if c else None
        if mx and mx < 10000 and x < 0.9:
            return r.choice([mx - 1, mx, mx + 1, mx - clock])
        return r.randrange(1, 600)

    def waveform(self, dur: int, lo: float, hi: float, allow_nonresizable=True):
        r = self.rng
        k = r.random()
        v = lambda: round(r.uniform(lo, hi), 3)  # noqa: E731
        if k < 0.4:
            return ["const", dur, v()]
        if k < 0.6 and dur >= 2:
            return ["ramp", dur, v(), v()]
        if k < 0.75 and lo >= 0 and dur >= 4:
            return ["blackman", dur, round(r.uniform(0.1, 3.0), 3)]
        if k < 0.85 and dur >= 8:
            return ["interp", dur, [v() for _ in range(r.choice([2, 3, 4]))]]
        if k < 0.95 and allow_nonresizable and dur <= 400:
            return ["custom", [v() for _ in range(dur)]]
        return ["const", dur, v()]

    def limit_pulse(self, c: dict) -> dict:
        """A pulse sitting exactly at, one ulp inside or one ulp outside one limit of the channel
        (amplitude, |detuning| with its 1e-6 rounding, minimum average amplitude, duration)."""
        import math

        r = self.rng
        clock, mn = c.get("clock_period", 1), c.get("min_duration", 1)
        mx = c.get("max_duration")
        dur = r.choice([mn, mn + 1, max(1, mn - 1), clock * max(1, -(-mn // clock)), clock * (mn // clock + 3),
                        clock * (mn // clock + 3) + 1] + ([mx, mx - 1, mx + 1] if mx and mx < 5000 else []))
        dur = max(1, dur)
        amp, det = 1.0, 0.0
        which = r.choice(["amp", "det", "avg", "dur", "resize", "resize"])
        if which == "resize" and clock > 1:
            # a resizable, non-constant pulse whose duration is NOT a clock multiple and which sits at
            # a limit as given: the scheduled (lengthened) pulse has other samples (F37)
            d0 = clock * (max(mn, 8) // clock + r.choice([1, 2, 5])) + r.randrange(1, clock)
            kind = r.choice(["avg", "amp", "det"])
            if kind == "avg" and c.get("min_avg_amp"):
                m = c["min_avg_amp"]
                area = m * d0 / 1000 * r.choice([1.0 + 1e-9, 1.02, 1.2])
                return dict(amp=["blackman", d0, area], det=["const", d0, 0.0], phase=self.phase(), post=0.0)
            if kind == "amp" and c.get("max_amp") is not None:
                m = c["max_amp"] * r.choice([1.0, 0.999, 0.9])
                return dict(amp=["interp1d", d0, [0.0, m * 0.999, m, 0.0, m, m * 0.999, 0.0], "cubic"],
                            det=["const", d0, 0.0], phase=self.phase(), post=0.0)
            if kind == "det" and c.get("max_abs_detuning") is not None:
                m = c["max_abs_detuning"] * r.choice([1.0, 0.999, 0.9]) * r.choice([1.0, -1.0])
                return dict(amp=["const", d0, 1.0],
                            det=["interp1d", d0, [0.0, m * 0.999, m, 0.0, m, m * 0.999, 0.0], "cubic"],
                            phase=self.phase(), post=0.0)
        if which == "amp" and c.get("max_amp") is not None:
            m = c["max_amp"]
            amp = r.choice([m, math.nextafter(m, 0.0), math.nextafter(m, math.inf), m * (1 - 1e-12), m * (1 + 1e-12)])
        elif which == "det" and c.get("max_abs_detuning") is not None:
            m = c["max_abs_detuning"]
            off = r.choice([0.0, 0.4e-6, -0.4e-6, 0.6e-6, -0.6e-6, 1e-9, -1e-9])
            det = r.choice([1.0, -1.0]) * (m + off)
        elif which == "avg" and c.get("min_avg_amp"):
            m = c["min_avg_amp"]
            amp = r.choice([m, math.nextafter(m, 0.0), math.nextafter(m, math.inf), m / 2, 0.0])
        return dict(amp=["const", dur, amp], det=["const", dur, det], phase=self.phase(), post=0.0)

    def pulse(self, c: dict) -> dict:
        r = self.rng
        if self.profile == "limits" and r.random() < 0.6:
            return self.limit_pulse(c)
        dur = max(1, self.duration(c))
        max_amp = c.get("max_amp") or 20.0
        max_det = c.get("max_abs_detuning") or 50.0
        over = r.random() < 0.04
        amp_hi = max_amp * (1.3 if over else 0.95)
        amp = self.waveform(dur, 0.0, amp_hi)
        if r.random() < 0.08:
            amp = ["const", dur, 0.0]
        over_d = r.random() < 0.04
        det_hi = max_det * (1.3 if over_d else 0.95)
        det = self.waveform(dur, -det_hi, det_hi)
        if r.random() < 0.5:
            det = ["const", dur, round(r.uniform(-det_hi, det_hi), 3) if r.random() < 0.5 else 0.0]
        if self.exact:
            post = self.shift() if r.random() < 0.3 else 0.0
        else:
            post = self.shift() if r.random() < 0.4 else 0.0
        return dict(amp=amp, det=det, phase=self.phase(), post=post)

    def proto(self) -> str:
        r = self.rng
        if r.random() < 0.02:
            return "bogus"
        return r.choice(["min-delay", "min-delay", "no-delay", "wait-for-all"])

    def qubits(self, c: dict | None = None) -> list[int]:
        r = self.rng
        nq = self.spec["nq"]
        mt = (c or {}).get("max_targets")
        k = r.randrange(1, (min(nq, mt) if mt else nq) + 1)
        if r.random() < 0.05:
            k = min(nq, k + 1)
        qs = sorted(r.sample(range(nq), k))
        if r.random() < 0.03:
            qs = sorted(set(qs + [nq + 1]))
        if r.random() < 0.02:
            qs = []
        return qs

    # ---- ops --------------------------------------------------------------
    def op_declare(self) -> dict:
        r = self.rng
        t = self.t
        ids = list(range(len(self.spec["channels"])))
        used = {c["id"] for c in t.declared.values() if not c["dmm"]}
        free = [i for i in ids if i not in used]
        if free and r.random() < 0.85:
            cid = r.choice(free)
        else:
            cid = r.choice(ids + [len(ids)])
        name = f"u{t.next_user}"
        if t.declared and r.random() < 0.05:
            name = r.choice(list(t.declared))
            if name.startswith("d"):
                name = f"u{t.next_user}"
        init = None
        if cid < len(ids) and self.spec["channels"][cid]["local"] and r.random() < 0.5:
            init = self.qubits(self.spec["channels"][cid])
        return dict(k="declare", ch=name, id=cid, init=init)

    def op_detmap(self) -> dict:
        r = self.rng
        nd = len(self.spec.get("dmms", []))
        did = r.randrange(0, nd + 1) if r.random() < 0.1 else r.randrange(0, max(1, nd))
        w = [r.choice([0.0, 0.25, 0.5, 1.0]) for _ in range(self.spec["nq"])]
        if not any(w):
            w[0] = 1.0
        s = sum(w)
        w = [x / s for x in w]
        return dict(k="detmap", id=did, weights=w)

    def pick(self, pred=lambda c: True, allow_bad=True):
        r = self.rng
        names = self.t.chan_names(pred)
        if allow_bad and r.random() < 0.03:
            return "u99"
        if not names:
            names = list(self.t.declared)
        if not names:
            return "u99"
        return r.choice(names)

    def next_op(self) -> dict:
        r = self.rng
        t = self.t
        nchan = len(self.spec["channels"])
        # opening: declare something
        if not t.declared or (len(t.declared) < nchan and r.random() < 0.25):
            if self.spec.get("dmms") and r.random() < 0.25:
                return self.op_detmap()
            return self.op_declare()
        if r.random() < self.p_invalid:
            return self.invalid_op()
        weights = {
            "add": 30, "delay": 10, "target": 8, "align": 5, "shift": 7, "declare": 2, "detmap": 2,
            "eomon": 5, "eommod": 3, "eomoff": 4, "addeom": 10, "adddmm": 5, "measure": 0.5,
            "dur": 3, "est": 4,
        }
        if self.profile == "eom":
            weights.update(eomon=10, eommod=6, eomoff=7, addeom=25, add=12, delay=12)
        elif self.profile == "target":
            weights.update(target=25, add=25)
        elif self.profile == "phase":
            weights.update(shift=20, add=35)
        elif self.profile == "dmm":
            weights.update(adddmm=18, detmap=5)
        ks = list(weights)
        for _ in range(20):
            k = r.choices(ks, [weights[x] for x in ks])[0]
            op = self.try_op(k)
            if op is not None:
                if op["k"] in ("delay", "target", "add", "adddmm") and r.random() < 0.12:
                    op["kw"] = True        # the call is written with keyword arguments (recorded as such)
                elif op["k"] in ("delay", "addeom", "eomon", "eomoff") and r.random() < 0.12:
                    op["pos"] = True       # optional arguments (at_rest, protocol, correct_phase_drift) given positionally
                return op
        return self.try_op("delay") or self.op_declare()

    def cfg_of(self, name: str) -> dict | None:
        d = self.t.declared.get(name)
        if d is None:
            return None
        return (self.spec["dmms"] if d["dmm"] else self.spec["channels"])[d["id"]]

    def try_op(self, k: str):
        r = self.rng
        t = self.t
        if k == "declare":
            return self.op_declare()
        if k == "detmap":
            return self.op_detmap() if self.spec.get("dmms") else None
        if k == "add":
            n = self.pick(lambda c: not c["dmm"] and not c["in_eom"])
            c = self.cfg_of(n) or self.spec["channels"][0]
            return dict(k="add", ch=n, pulse=self.pulse(c), proto=self.proto())
        if k == "est":
            n = self.pick(lambda c: not c["dmm"])
            c = self.cfg_of(n) or self.spec["channels"][0]
            return dict(k="est", ch=n, pulse=self.pulse(c), proto=self.proto())
        if k == "adddmm":
            names = t.chan_names(lambda c: c["dmm"])
            if not names:
                return None
            n = r.choice(names)
            c = self.cfg_of(n)
            dur = max(1, self.duration(c))
            bottom = c.get("bottom_detuning") or -15.0
            lo = bottom * (1.2 if r.random() < 0.1 else 0.9)
            hi = 1.0 if r.random() < 0.05 else 0.0
            wf = self.waveform(dur, lo, hi)
            return dict(k="adddmm", ch=n, wf=wf, proto=self.proto())
        if k == "delay":
            n = self.pick()
            c = self.cfg_of(n)
            d = self.duration(c)
            if r.random() < 0.08:
                d = 0
            return dict(k="delay", ch=n, d=d, at_rest=r.random() < 0.4)
        if k == "target":
            names = t.chan_names(lambda c: c["local"] and not c["in_eom"])
            if not names:
                return None
            n = r.choice(names)
            return dict(k="target", ch=n, qs=self.qubits(self.cfg_of(n)))
        if k == "align":
            names = list(t.declared)
            if len(names) < 2:
                return None
            kk = r.randrange(2, len(names) + 1)
            return dict(k="align", chs=r.sample(names, kk), at_rest=r.random() < 0.6)
        if k == "shift":
            bases = sorted({self.basis_of(n) for n in t.declared})
            if not bases:
                return None
            b = r.choice(bases) if r.random() < 0.95 else r.choice(["ground-rydberg", "digital"])
            qs = self.qubits() if r.random() < 0.85 else []
            return dict(k="shift", phi=self.shift(), qs=qs, basis=b)
        if k in ("eomon", "eommod"):
            want_in = k == "eommod"
            names = t.chan_names(lambda c: c["eom"] and c["in_eom"] == want_in)
            if not names:
                return None
            n = r.choice(names)
            c = self.cfg_of(n)
            e = c["eom"]
            amp = round(r.uniform(0.2, min(c.get("max_amp") or 15.0, e["max_limiting_amp"]) * 0.9), 3)
            if r.random() < 0.1:
                amp = 0.0
            det_on = round(r.uniform(-10, 10), 3) if r.random() < 0.7 else 0.0
            optimal = r.choice([0.0, 0.0, round(r.uniform(-40, 40), 2)])
            real = getattr(self, "_real", None)
            if real is not None and r.random() < 0.25:
                # make detuning_off exactly 0: idle time in EOM mode is then a plain delay,
                # the only way to get non-pulse instructions on a channel in EOM mode (F32)
                opts = real.eom_oracle(n, amp, 0.0, 0.0)["opts"]
                if opts:
                    det_on, optimal = -r.choice(opts), 0.0
            corr = (not self.exact) and r.random() < 0.4
            return dict(k=k, ch=n, amp=amp, det_on=det_on, optimal=optimal, corr=corr)
        if k == "eomoff":
            names = t.chan_names(lambda c: c["in_eom"])
            if not names:
                return None
            return dict(k="eomoff", ch=r.choice(names), corr=(not self.exact) and r.random() < 0.4)
        if k == "addeom":
            names = t.chan_names(lambda c: c["in_eom"])
            if not names:
                return None
            n = r.choice(names)
            c = self.cfg_of(n)
            post = self.shift() if r.random() < 0.3 else 0.0
            # a third of the EOM pulses repeat the nominal phase of the previous one on the channel (with drift
            # correction the scheduled phases still differ: the phase-jump wait depends on the corrected phase)
            last = getattr(self, "_last_eom_phase", {})
            ph = last[n] if n in last and r.random() < 0.33 else self.phase()
            last[n] = ph
            self._last_eom_phase = last
            return dict(k="addeom", ch=n, dur=max(1, self.duration(c)), phase=ph, post=post,
                        proto=self.proto(), corr=(not self.exact) and r.random() < 0.4)
        if k == "measure":
            bases = sorted({self.basis_of(n) for n in t.declared})
            return dict(k="measure", basis=r.choice(bases + ["ground-rydberg", "digital", "XY"]))
        if k == "dur":
            n = self.pick() if r.random() < 0.7 else None
            return dict(k="dur", ch=n, fall=r.random() < 0.5)
        return None

    def basis_of(self, name: str) -> str:
        c = self.cfg_of(name)
        if c is None:
            return "ground-rydberg"
        return {"rydberg": "ground-rydberg", "raman": "digital", "microwave": "XY", "dmm": "ground-rydberg"}[c["kind"]]

    def invalid_op(self) -> dict:
        """One call of a kind that should be refused in the current mode or with bad arguments."""
        r = self.rng
        t = self.t
        kinds = ["add_in_eom", "addeom_outside", "target_global", "add_dmm", "adddmm_nondmm",
                 "short_delay", "neg_delay", "long_delay", "bad_channel", "align_dup", "align_one",
                 "eomon_noeom", "eomoff_outside", "shift_nobasis", "declare_again", "big_target",
                 "over_amp", "over_det", "bad_proto", "unknown_qubit", "nonfinite"]
        k = r.choice(kinds)
        n = self.pick(allow_bad=False)
        c = self.cfg_of(n) or self.spec["channels"][0]
        if k == "add_in_eom":
            names = t.chan_names(lambda c: c["in_eom"])
            if names:
                n = r.choice(names)
                return dict(k="add", ch=n, pulse=self.pulse(self.cfg_of(n)), proto="min-delay")
        if k == "addeom_outside":
            return dict(k="addeom", ch=n, dur=max(1, self.duration(c)), phase=self.phase(), post=0.0,
                        proto="min-delay", corr=False)
        if k == "target_global":
            names = t.chan_names(lambda c: not c["local"])
            if names:
                return dict(k="target", ch=r.choice(names), qs=[0])
        if k == "add_dmm":
            names = t.chan_names(lambda c: c["dmm"])
            if names:
                n = r.choice(names)
                return dict(k="add", ch=n, pulse=self.pulse(self.spec["channels"][0]), proto="no-delay")
        if k == "adddmm_nondmm":
            return dict(k="adddmm", ch=n, wf=["const", 100, -1.0], proto="no-delay")
        if k == "short_delay":
            return dict(k="delay", ch=n, d=max(0, c.get("min_duration", 1) - r.choice([1, 2, 3])),
                        at_rest=r.random() < 0.7)
        if k == "neg_delay":
            return dict(k="delay", ch=n, d=-r.randrange(1, 50), at_rest=r.random() < 0.5)
        if k == "long_delay":
            mx = c.get("max_duration")
            if mx is not None:  # (an unbounded channel would really build a 1e8-sample pulse)
                return dict(k="delay", ch=n, d=mx + r.choice([1, 4, 1000]), at_rest=r.random() < 0.5)
        if k == "bad_channel":
            return dict(k=r.choice(["delay", "eomoff"]), ch="u98", d=100, at_rest=False, corr=False)
        if k == "align_dup" and t.declared:
            return dict(k="align", chs=[n, n], at_rest=True)
        if k == "align_one":
            return dict(k="align", chs=[n], at_rest=True)
        if k == "eomon_noeom":
            names = t.chan_names(lambda c: not c["eom"])
            if names:
                return dict(k="eomon", ch=r.choice(names), amp=1.0, det_on=0.0, optimal=0.0, corr=False)
        if k == "eomoff_outside":
            return dict(k="eomoff", ch=n, corr=False)
        if k == "shift_nobasis":
            return dict(k="shift", phi=0.25, qs=[0], basis=r.choice(["digital", "XY", "ground-rydberg"]))
        if k == "declare_again" and t.declared:
            d = r.choice(list(t.declared.values()))
            if not d["dmm"]:
                return dict(k="declare", ch=f"u{t.next_user}", id=d["id"], init=None)
        if k == "big_target":
            names = t.chan_names(lambda c: c["local"])
            if names:
                return dict(k="target", ch=r.choice(names), qs=list(range(self.spec["nq"])))
        if k == "over_amp" and not (t.declared.get(n) or {}).get("dmm"):
            p = self.pulse(c)
            d = p["amp"][1] if p["amp"][0] != "custom" else len(p["amp"][1])
            p["amp"] = ["const", d, (c.get("max_amp") or 100.0) * 1.5]
            p["det"] = ["const", d, 0.0]
            return dict(k="add", ch=n, pulse=p, proto="min-delay")
        if k == "over_det" and not (t.declared.get(n) or {}).get("dmm"):
            p = self.pulse(c)
            d = p["amp"][1] if p["amp"][0] != "custom" else len(p["amp"][1])
            p["amp"] = ["const", d, 1.0]
            p["det"] = ["const", d, -(c.get("max_abs_detuning") or 1000.0) * 1.5]
            return dict(k="add", ch=n, pulse=p, proto="min-delay")
        if k == "nonfinite" and not (t.declared.get(n) or {}).get("dmm"):
            d = max(c.get("min_duration", 1), 4) * c.get("clock_period", 1)
            bad = r.choice(["nan", "inf", "ramp1"])
            if bad == "ramp1" and c.get("min_duration", 1) == 1 and c.get("clock_period", 1) == 1:
                return dict(k="add", ch=n, pulse=dict(amp=["ramp", 1, 1.0, 2.0], det=["const", 1, 0.0], phase=0.0, post=0.0), proto="min-delay")
            vals = [1.0] * d
            vals[r.randrange(d)] = float("nan") if bad != "inf" else float("inf")
            wf = ["custom", vals]
            p = dict(amp=wf, det=["const", d, 0.0], phase=0.0, post=0.0) if r.random() < 0.5 else dict(amp=["const", d, 1.0], det=wf, phase=0.0, post=0.0)
            return dict(k="add", ch=n, pulse=p, proto="min-delay")
        if k == "bad_proto":
            return dict(k="add", ch=n, pulse=self.pulse(c), proto="bogus")
        if k == "unknown_qubit":
            return dict(k="shift", phi=0.0, qs=[self.spec["nq"] + 2], basis=self.basis_of(n))
        return dict(k="delay", ch=n, d=0, at_rest=False)

    # ---- feedback ----------------------------------------------------------
    def feedback(self, op: dict, status: str, real) -> None:
        """Update the tracker from the real sequence after the op."""
        t = self.t
        self._real = real
        if op["k"] == "declare":
            t.next_user += 1
        t.measured = real.seq.is_measured()
        from realcode import wire_name
        from pulser.channels import DMM

        decl = {}
        for name, sch in real.seq._schedule.items():
            w = wire_name(name)
            is_dmm = isinstance(sch.channel_obj, DMM)
            cid = (int(sch.channel_id.split("_")[1]) if is_dmm else real.dev.chan_ids.index(sch.channel_id))
            decl[w] = dict(
                id=cid,
                dmm=is_dmm,
                local=sch.channel_obj.addressing == "Local",
                eom=sch.channel_obj.supports_eom() if not is_dmm else False,
                in_eom=sch.in_eom_mode(),
            )
        t.declared = decl
