"""Monitors: each property re-stated *directly* over observables of the real
implementation (no model involved).  They run on every trace and are the search
engine when a proof obligation or the correspondence breaks.
"""
from __future__ import annotations

import math
import warnings
from fractions import Fraction

import numpy as np

from realcode import BASIS_WIRE, real_name, wire_name, make_pulse, make_wf, adjusted_duration
from seqcheck import Fail, LIMIT_ERRS, TYPESTATE_ERRS

from pulser import Pulse
from pulser.channels import DMM
from pulser.sequence._schedule import _ChannelSchedule

TWO_PI = 2 * math.pi


class Monitor:
    prop = "?"

    def begin(self, ls):
        pass

    def pre(self, ls, op):
        pass

    def post(self, ls, st):
        return []

    def end(self, ls):
        return []

    def F(self, clause, msg, **key):
        return Fail(self.prop, clause, msg, key)


def valid_gap(ch, g: int) -> bool:
    if g == 0:
        return True
    return g >= ch.min_duration and g % ch.clock_period == 0 and (ch.max_duration is None or g <= ch.max_duration)


def least_valid_gap(ch, need: int) -> int:
    """Smallest g >= need with g = 0 or (g >= min_duration and clock | g)."""
    if need <= 0:
        return 0
    g = max(need, ch.min_duration)
    if g % ch.clock_period:
        g += ch.clock_period - g % ch.clock_period
    return g


def chan_aux(seq) -> dict:
    """Per-channel facts of the real sequence computed with leaf functions."""
    out = {}
    for name, sch in seq._schedule.items():
        ch = sch.channel_obj
        in_eom = sch.in_eom_mode()
        slots = []
        for s in sch.slots:
            if isinstance(s.type, Pulse):
                fs = int(s.type.fall_time(ch, in_eom_mode=False))
                fe = int(s.type.fall_time(ch, in_eom_mode=True)) if ch.supports_eom() else 0
                slots.append(("P", int(s.ti), int(s.tf), set(s.targets), fs, fe,
                              bool(_ChannelSchedule.is_detuned_delay(s.type)), float(s.type.phase)))
            else:
                slots.append(("T" if s.type == "target" else "D", int(s.ti), int(s.tf), set(s.targets), 0, 0, False, 0.0))
        out[name] = dict(ch=ch, in_eom=in_eom, slots=slots,
                         end=slots[-1][2] if slots else 0)
    return out


def end_with_fall(a: dict) -> int:
    """Declarative duration-with-fall: max(last end, end of last pulse + its fall)."""
    if not a["slots"]:
        return 0
    end = a["slots"][-1][2]
    for s in reversed(a["slots"]):
        if s[0] == "P":
            return max(end, s[2] + (s[5] if a["in_eom"] else s[4]))
    return end


# ==========================================================================
class MonC02(Monitor):
    """Channel timelines are gap-free, non-overlapping and clock-aligned."""

    prop = "C02"

    def post(self, ls, st):
        fails = []
        seq = ls.real.seq
        pre = {c["name"]: c for c in st.pre["chans"]}
        for name, sch in seq._schedule.items():
            ch = sch.channel_obj
            w = wire_name(name)
            slots = sch.slots
            if not slots:
                continue
            s0 = slots[0]
            if not (s0.type == "target" and s0.ti == -1 and s0.tf == 0):
                fails.append(self.F("initial-target", f"{name}: first slot {s0[:3]}", op=st.op["k"]))
            for i in range(1, len(slots)):
                p, s = slots[i - 1], slots[i]
                if s.ti != p.tf:
                    fails.append(self.F("tiling", f"{name}[{i}]: ti={s.ti} but previous tf={p.tf}", op=st.op["k"]))
                if s.tf < s.ti:
                    fails.append(self.F("tiling", f"{name}[{i}]: tf<ti", op=st.op["k"]))
                if s.tf % ch.clock_period or s.tf < 0:
                    fails.append(self.F("clock", f"{name}[{i}]: tf={s.tf} clock={ch.clock_period}", op=st.op["k"]))
                is_pulse = isinstance(s.type, Pulse)
                if is_pulse and s.tf - s.ti != s.type.duration:
                    fails.append(self.F("pulse-duration", f"{name}[{i}]: slot {s.tf - s.ti} vs pulse {s.type.duration}", op=st.op["k"]))
                inserted = (s.type == "delay" or (is_pulse and _ChannelSchedule.is_detuned_delay(s.type))
                            or (s.type == "target" and s.tf > s.ti))
                if inserted and s.tf - s.ti < ch.min_duration:
                    fails.append(self.F("min-duration", f"{name}[{i}]: {s.type if not is_pulse else 'dd'} lasts {s.tf - s.ti} < {ch.min_duration}", op=st.op["k"]))
                if s.type != "target" and set(s.targets) != set(p.targets):
                    fails.append(self.F("targets", f"{name}[{i}]: targets changed without target slot", op=st.op["k"]))
            # instruction times never move: the previous slot list is a prefix
            if w in pre:
                old = pre[w]["slots"]
                new = next(c for c in st.post["chans"] if c["name"] == w)["slots"]
                if new[: len(old)] != old:
                    fails.append(self.F("append-only", f"{name}: scheduled instructions changed", op=st.op["k"]))
        # reported durations
        if not seq.is_parametrized():
            aux = chan_aux(seq)
            tot = 0
            with warnings.catch_warnings():
                warnings.simplefilter("ignore")
                for name, a in aux.items():
                    d0 = seq.get_duration(name)
                    d1 = seq.get_duration(name, include_fall_time=True)
                    if d0 != a["end"]:
                        fails.append(self.F("duration", f"{name}: get_duration={d0} last end={a['end']}", op=st.op["k"]))
                    if d1 != end_with_fall(a):
                        fails.append(self.F("duration-fall", f"{name}: get_duration(fall)={d1} expected {end_with_fall(a)}", op=st.op["k"]))
                    tot = max(tot, a["end"])
                if seq.get_duration() != tot:
                    fails.append(self.F("seq-duration", f"get_duration()={seq.get_duration()} max={tot}", op=st.op["k"]))
        return fails


MONITORS = {"C02": MonC02}


# ==========================================================================
def new_slots(st, w):
    """Slots appended on channel `w` by this step (post minus pre)."""
    pre = next((c for c in st.pre["chans"] if c["name"] == w), None)
    post = next((c for c in st.post["chans"] if c["name"] == w), None)
    if post is None:
        return [], 0
    n0 = len(pre["slots"]) if pre else 0
    return post["slots"][n0:], n0


def within_limits(pulse: Pulse, ch, det_map=None):
    """Independent statement of 'inside every limit of the channel' -> (ok, which)."""
    amp = pulse.amplitude.samples.as_array(detach=True)
    det = pulse.detuning.samples.as_array(detach=True)
    if not (np.all(np.isfinite(amp)) and np.all(np.isfinite(det))):
        return False, "finite"
    if ch.max_amp is not None and np.any(amp > ch.max_amp):
        return False, "amp"
    if ch.max_abs_detuning is not None and np.any(np.round(np.abs(det), 6) > ch.max_abs_detuning):
        return False, "det"
    avg = np.average(amp)
    if 0 < avg < ch.min_avg_amp:
        return False, "avg"
    if isinstance(ch, DMM):
        rd = np.round(det, 6)
        if np.any(rd > 0):
            return False, "dmm-positive"
        w = det_map.weights if det_map is not None else np.array([1.0])
        if ch.bottom_detuning is not None and np.max(w) * np.min(rd) < ch.bottom_detuning:
            return False, "dmm-bottom"
        if ch.total_bottom_detuning is not None and np.sum(w) * np.min(rd) < ch.total_bottom_detuning:
            return False, "dmm-total-bottom"
    return True, None


def limit_margin(pulse: Pulse, ch, det_map=None) -> float:
    """Smallest relative distance of the pulse to any limit (to recognise 1-ulp boundary cases)."""
    amp = pulse.amplitude.samples.as_array(detach=True)
    det = pulse.detuning.samples.as_array(detach=True)
    m = []
    if ch.max_amp is not None:
        m.append(abs(float(np.max(amp)) - ch.max_amp))
    if ch.max_abs_detuning is not None:
        m.append(abs(float(np.max(np.round(np.abs(det), 6))) - ch.max_abs_detuning))
    if ch.min_avg_amp:
        m.append(abs(float(np.average(amp)) - ch.min_avg_amp))
    if isinstance(ch, DMM) and det_map is not None:
        rd = np.round(det, 6)
        if ch.bottom_detuning is not None:
            m.append(abs(float(np.max(det_map.weights) * np.min(rd)) - ch.bottom_detuning))
        if ch.total_bottom_detuning is not None:
            m.append(abs(float(np.sum(det_map.weights) * np.min(rd)) - ch.total_bottom_detuning))
    return min(m) if m else 1.0


class MonC01(Monitor):
    """Every scheduled pulse respects the limits of its channel and device."""

    prop = "C01"

    def pre(self, ls, op):
        self.pulse = None
        self.chobj = None
        self.detmap = None
        k = op["k"]
        if k not in ("add", "adddmm", "addeom"):
            return
        sch = ls.real.seq._schedule.get(real_name(op["ch"]))
        if sch is None:
            return
        self.chobj = sch.channel_obj
        self.detmap = getattr(sch, "detuning_map", None)
        try:
            with warnings.catch_warnings():
                warnings.simplefilter("ignore")
                if k == "add":
                    self.pulse = make_pulse(op["pulse"])
                elif k == "adddmm":
                    self.pulse = Pulse.ConstantAmplitude(0, make_wf(op["wf"]), 0)
                elif sch.eom_blocks:
                    b = sch.eom_blocks[-1]
                    self.pulse = Pulse.ConstantPulse(op["dur"], float(b.rabi_freq), float(b.detuning_on), 0.0)
        except Exception:
            self.pulse = None

    def post(self, ls, st):
        fails = []
        op = st.op
        k = op["k"]
        seq = ls.real.seq
        # (a) every pulse slot appended by this call, by whatever route, is within limits
        for name, sch in seq._schedule.items():
            w = wire_name(name)
            ch = sch.channel_obj
            new, n0 = new_slots(st, w)
            for j, sl in enumerate(new):
                if sl["k"] != "P":
                    continue
                real_slot = sch.slots[n0 + j]
                pulse = real_slot.type
                ok, which = within_limits(pulse, ch, getattr(sch, "detuning_map", None))
                if not ok:
                    fails.append(self.F("scheduled-over-limit", f"{name}: scheduled pulse violates {which}",
                                        op=k, which=which))
                d = int(pulse.duration)
                if d % ch.clock_period or d < ch.min_duration:
                    fails.append(self.F("scheduled-duration", f"{name}: scheduled duration {d} (clock {ch.clock_period}, min {ch.min_duration})", op=k))
                if ch.max_duration is not None and d > ch.max_duration:
                    fails.append(self.F("scheduled-over-max-duration",
                                        f"{name}: scheduled duration {d} > max_duration {ch.max_duration}",
                                        op=k, clock_divides_max=(ch.max_duration % ch.clock_period == 0)))
        mx = seq._device.max_sequence_duration
        if mx is not None and st.real[0] == "ok" and k in MUT_TIMELINE:
            tot = max((s.slots[-1].tf for s in seq._schedule.values() if s.slots), default=0)
            if tot > mx:
                fails.append(self.F("over-max-sequence-duration", f"sequence lasts {tot} > {mx}", op=k))
        # (b) converse: a pulse inside every limit is not refused for a limit reason, and is
        # scheduled unchanged (clock multiple) or lengthened to the next clock multiple
        if self.pulse is not None and self.chobj is not None:
            ch = self.chobj
            ok, which = within_limits(self.pulse, ch, self.detmap)
            d = int(self.pulse.duration)
            dur_ok = d >= ch.min_duration and (ch.max_duration is None or d <= ch.max_duration)
            margin = limit_margin(self.pulse, ch, self.detmap)
            if st.real[0] == "err" and st.real[1] in LIMIT_ERRS - {"overMaxSeq", "notResizable", "durTooShort", "durTooLong"}:
                if ok and margin > 1e-9:
                    fails.append(self.F("spurious-limit-rejection", f"pulse within limits refused with {st.real[1]}", op=k))
            # (the automatically inserted delay may itself exceed a small max_duration and be
            # refused with the same error class; only channels where that cannot happen count)
            big = ch.max_duration is None or ch.max_duration >= 10 ** 6
            if st.real[0] == "err" and st.real[1] in ("durTooShort", "durTooLong") and dur_ok and big:
                fails.append(self.F("spurious-duration-rejection", f"duration {d} within [{ch.min_duration},{ch.max_duration}] refused with {st.real[1]}", op=k))
            if st.real[0] == "ok" and not (ok and dur_ok) and margin > 1e-9 and which != "finite":
                fails.append(self.F("accepted-over-limit", f"pulse outside limits ({which or 'duration'}) accepted", op=k))
            if st.real[0] == "ok" and k != "est":
                new, _ = new_slots(st, op["ch"])
                ps = [s for s in new if s["k"] == "P" and not (s["dd"] and k == "addeom" and False)]
                if ps:
                    got = ps[-1]["dur"]
                    want = adjusted_duration(ch, d)
                    if want is not None and got != want:
                        fails.append(self.F("duration-adjustment", f"requested {d}, scheduled {got}, expected {want}", op=k))
        return fails


MUT_TIMELINE = {"declare", "detmap", "target", "add", "adddmm", "addeom", "delay", "align", "eomon", "eommod", "eomoff"}
MONITORS["C01"] = MonC01
