"""Monitors: each property re-stated *directly* over observables of the real
implementation (no model involved).  They run on every trace and are the search
engine when a proof obligation or the correspondence breaks.
"""
from __future__ import annotations

import math
import warnings
from fractions import Fraction

import numpy as np

from realcode import BASIS_WIRE, real_name, wire_name, make_pulse, make_wf, adjusted_duration
from seqcheck import Fail, LIMIT_ERRS, TYPESTATE_ERRS

from pulser import Pulse
from pulser.channels import DMM
from pulser.sequence._schedule import _ChannelSchedule

TWO_PI = 2 * math.pi


class Monitor:
    prop = "?"

    def begin(self, ls):
        pass

    def pre(self, ls, op):
        pass

    def post(self, ls, st):
        return []

    def end(self, ls):
        return []

    def F(self, clause, msg, **key):
        return Fail(self.prop, clause, msg, key)


def valid_gap(ch, g: int) -> bool:
    if g == 0:
        return True
    return g >= ch.min_duration and g % ch.clock_period == 0 and (ch.max_duration is None or g <= ch.max_duration)


def least_valid_gap(ch, need: int) -> int:
    """Smallest g >= need with g = 0 or (g >= min_duration and clock | g)."""
    if need <= 0:
        return 0
    g = max(need, ch.min_duration)
    if g % ch.clock_period:
        g += ch.clock_period - g % ch.clock_period
    return g


def chan_aux(seq) -> dict:
    """Per-channel facts of the real sequence computed with leaf functions."""
    out = {}
    for name, sch in seq._schedule.items():
        ch = sch.channel_obj
        in_eom = sch.in_eom_mode()
        slots = []
        for s in sch.slots:
            if isinstance(s.type, Pulse):
                fs = int(s.type.fall_time(ch, in_eom_mode=False))
                fe = int(s.type.fall_time(ch, in_eom_mode=True)) if ch.supports_eom() else 0
                slots.append(("P", int(s.ti), int(s.tf), set(s.targets), fs, fe,
                              bool(_ChannelSchedule.is_detuned_delay(s.type)), float(s.type.phase)))
            else:
                slots.append(("T" if s.type == "target" else "D", int(s.ti), int(s.tf), set(s.targets), 0, 0, False, 0.0))
        out[name] = dict(ch=ch, in_eom=in_eom, slots=slots,
                         end=slots[-1][2] if slots else 0)
    return out


def end_with_fall(a: dict) -> int:
    """Declarative duration-with-fall: max(last end, end of last pulse + its fall)."""
    if not a["slots"]:
        return 0
    end = a["slots"][-1][2]
    for s in reversed(a["slots"]):
        if s[0] == "P":
            return max(end, s[2] + (s[5] if a["in_eom"] else s[4]))
    return end


# ==========================================================================
class MonC02(Monitor):
    """Channel timelines are gap-free, non-overlapping and clock-aligned."""

    prop = "C02"

    def post(self, ls, st):
        fails = []
        seq = ls.real.seq
        pre = {c["name"]: c for c in st.pre["chans"]}
        for name, sch in seq._schedule.items():
            ch = sch.channel_obj
            w = wire_name(name)
            slots = sch.slots
            if not slots:
                continue
            s0 = slots[0]
            if not (s0.type == "target" and s0.ti == -1 and s0.tf == 0):
                fails.append(self.F("initial-target", f"{name}: first slot {s0[:3]}", op=st.op["k"]))
            for i in range(1, len(slots)):
                p, s = slots[i - 1], slots[i]
                if s.ti != p.tf:
                    fails.append(self.F("tiling", f"{name}[{i}]: ti={s.ti} but previous tf={p.tf}", op=st.op["k"]))
                if s.tf < s.ti:
                    fails.append(self.F("tiling", f"{name}[{i}]: tf<ti", op=st.op["k"]))
                if s.tf % ch.clock_period or s.tf < 0:
                    fails.append(self.F("clock", f"{name}[{i}]: tf={s.tf} clock={ch.clock_period}", op=st.op["k"]))
                is_pulse = isinstance(s.type, Pulse)
                if is_pulse and s.tf - s.ti != s.type.duration:
                    fails.append(self.F("pulse-duration", f"{name}[{i}]: slot {s.tf - s.ti} vs pulse {s.type.duration}", op=st.op["k"]))
                inserted = (s.type == "delay" or (is_pulse and _ChannelSchedule.is_detuned_delay(s.type))
                            or (s.type == "target" and s.tf > s.ti))
                if inserted and s.tf - s.ti < ch.min_duration:
                    fails.append(self.F("min-duration", f"{name}[{i}]: {s.type if not is_pulse else 'dd'} lasts {s.tf - s.ti} < {ch.min_duration}", op=st.op["k"]))
                if s.type != "target" and set(s.targets) != set(p.targets):
                    fails.append(self.F("targets", f"{name}[{i}]: targets changed without target slot", op=st.op["k"]))
            # instruction times never move: the previous slot list is a prefix
            if w in pre:
                old = pre[w]["slots"]
                new = next(c for c in st.post["chans"] if c["name"] == w)["slots"]
                if new[: len(old)] != old:
                    fails.append(self.F("append-only", f"{name}: scheduled instructions changed", op=st.op["k"]))
        # reported durations
        if not seq.is_parametrized():
            aux = chan_aux(seq)
            tot = 0
            with warnings.catch_warnings():
                warnings.simplefilter("ignore")
                for name, a in aux.items():
                    d0 = seq.get_duration(name)
                    d1 = seq.get_duration(name, include_fall_time=True)
                    if d0 != a["end"]:
                        fails.append(self.F("duration", f"{name}: get_duration={d0} last end={a['end']}", op=st.op["k"]))
                    if d1 != end_with_fall(a):
                        fails.append(self.F("duration-fall", f"{name}: get_duration(fall)={d1} expected {end_with_fall(a)}", op=st.op["k"]))
                    tot = max(tot, a["end"])
                if seq.get_duration() != tot:
                    fails.append(self.F("seq-duration", f"get_duration()={seq.get_duration()} max={tot}", op=st.op["k"]))
        return fails


MONITORS = {"C02": MonC02}
