"""Monitors: each property re-stated *directly* over observables of the real
implementation (no model involved).  They run on every trace and are the search
engine when a proof obligation or the correspondence breaks.
"""
from __future__ import annotations

import math
import warnings
from fractions import Fraction

import numpy as np

from realcode import (BASIS_WIRE, real_name, wire_name, make_pulse, make_wf, adjusted_duration,
                      doc_rise_time, doc_phase_jump_time, doc_is_detuned_delay, doc_fall_time)
from seqcheck import Fail, LIMIT_ERRS, TYPESTATE_ERRS

from pulser import Pulse
from pulser.channels import DMM
from pulser.sequence._schedule import _ChannelSchedule

TWO_PI = 2 * math.pi


class Monitor:
    prop = "?"

    def begin(self, ls):
        pass

    def pre(self, ls, op):
        pass

    def post(self, ls, st):
        return []

    def end(self, ls):
        return []

    def F(self, clause, msg, **key):
        return Fail(self.prop, clause, msg, key)


def configured_eom_buffer(ch) -> int:
    """The documented EOM buffer length: the custom buffer time of the EOM configuration when
    one is set, twice the channel's rise time otherwise (computed from public attributes only)."""
    return int(ch.eom_config.custom_buffer_time or 2 * doc_rise_time(ch))


def doc_detuning_off_options(eom, rabi: float, det_on: float) -> list:
    """The detuning while the amplitude is off, for each combination of beams the EOM can switch off
    (each controlled beam alone, in the given order; both when several are controlled and
    multiple_beam_control is set), from the two-photon formulas of the RydbergEOM documentation:
    effective Rabi frequency  Om = Om_red * Om_blue / (2 * Delta);
    light shift of the beams that are on  (c_blue * Om_blue**2 - c_red * Om_red**2) / (4 * Delta);
    the beams are balanced (zero light shift) as long as the limiting beam stays below its maximum
    amplitude, otherwise the limiting beam sits at its maximum and the other one supplies the rest."""
    import math

    D = float(eom.intermediate_detuning)
    cb, cr = float(eom.blue_shift_coeff), float(eom.red_shift_coeff)
    A = float(eom.max_limiting_amp)
    lim_red = eom.limiting_beam.name == "RED"
    red2 = 2 * rabi * D * math.sqrt(cb / cr)      # balanced: c_blue*Om_blue^2 == c_red*Om_red^2
    blue2 = 2 * rabi * D * math.sqrt(cr / cb)
    if (red2 if lim_red else blue2) > A * A * (1 + 1e-15):
        other = 2 * D * rabi / A
        red2, blue2 = (A * A, other * other) if lim_red else (other * other, A * A)
    shift = {"RED": -cr * red2 / (4 * D), "BLUE": cb * blue2 / (4 * D)}
    offset = det_on - (shift["RED"] + shift["BLUE"])
    combos = [(b.name,) for b in eom.controlled_beams]
    if len(eom.controlled_beams) > 1 and eom.multiple_beam_control:
        combos.append(("RED", "BLUE"))
    return [offset + sum(v for k, v in shift.items() if k not in off) for off in combos]


def valid_gap(ch, g: int) -> bool:
    if g == 0:
        return True
    return g >= ch.min_duration and g % ch.clock_period == 0 and (ch.max_duration is None or g <= ch.max_duration)


def least_valid_gap(ch, need: int) -> int:
    """Smallest g >= need with g = 0 or (g >= min_duration and clock | g)."""
    if need <= 0:
        return 0
    g = max(need, ch.min_duration)
    if g % ch.clock_period:
        g += ch.clock_period - g % ch.clock_period
    return g


def chan_aux(seq) -> dict:
    """Per-channel facts of the real sequence computed with leaf functions."""
    out = {}
    for name, sch in seq._schedule.items():
        ch = sch.channel_obj
        in_eom = sch.in_eom_mode()
        slots = []
        for s in sch.slots:
            if isinstance(s.type, Pulse):
                # (independent of Pulse.fall_time, which the scheduler under test reads)
                fs = doc_fall_time(s.type, ch, False)
                fe = doc_fall_time(s.type, ch, True) if ch.supports_eom() else 0
                slots.append(("P", int(s.ti), int(s.tf), set(s.targets), fs, fe,
                              bool(doc_is_detuned_delay(s.type)), float(s.type.phase)))
            else:
                slots.append(("T" if s.type == "target" else "D", int(s.ti), int(s.tf), set(s.targets), 0, 0, False, 0.0))
        out[name] = dict(ch=ch, in_eom=in_eom, slots=slots,
                         end=slots[-1][2] if slots else 0)
    return out


def end_with_fall(a: dict) -> int:
    """Declarative duration-with-fall: max(last end, end of last pulse + its fall)."""
    if not a["slots"]:
        return 0
    end = a["slots"][-1][2]
    for s in reversed(a["slots"]):
        if s[0] == "P":
            return max(end, s[2] + (s[5] if a["in_eom"] else s[4]))
    return end


# ==========================================================================
class MonC02(Monitor):
    """Channel timelines are gap-free, non-overlapping and clock-aligned."""

    prop = "C02"

    def post(self, ls, st):
        fails = []
        seq = ls.real.seq
        pre = {c["name"]: c for c in st.pre["chans"]}
        for name, sch in seq._schedule.items():
            ch = sch.channel_obj
            w = wire_name(name)
            slots = sch.slots
            if not slots:
                continue
            s0 = slots[0]
            if not (s0.type == "target" and s0.ti == -1 and s0.tf == 0):
                fails.append(self.F("initial-target", f"{name}: first slot {s0[:3]}", op=st.op["k"]))
            for i in range(1, len(slots)):
                p, s = slots[i - 1], slots[i]
                if s.ti != p.tf:
                    fails.append(self.F("tiling", f"{name}[{i}]: ti={s.ti} but previous tf={p.tf}", op=st.op["k"]))
                if s.tf < s.ti:
                    fails.append(self.F("tiling", f"{name}[{i}]: tf<ti", op=st.op["k"]))
                if s.tf % ch.clock_period or s.tf < 0:
                    fails.append(self.F("clock", f"{name}[{i}]: tf={s.tf} clock={ch.clock_period}", op=st.op["k"]))
                is_pulse = isinstance(s.type, Pulse)
                if is_pulse and s.tf - s.ti != s.type.duration:
                    fails.append(self.F("pulse-duration", f"{name}[{i}]: slot {s.tf - s.ti} vs pulse {s.type.duration}", op=st.op["k"]))
                inserted = (s.type == "delay" or (is_pulse and doc_is_detuned_delay(s.type))
                            or (s.type == "target" and s.tf > s.ti))
                if inserted and s.tf - s.ti < ch.min_duration:
                    fails.append(self.F("min-duration", f"{name}[{i}]: {s.type if not is_pulse else 'dd'} lasts {s.tf - s.ti} < {ch.min_duration}", op=st.op["k"]))
                if s.type != "target" and set(s.targets) != set(p.targets):
                    fails.append(self.F("targets", f"{name}[{i}]: targets changed without target slot", op=st.op["k"]))
            # instruction times never move: the previous slot list is a prefix
            if w in pre:
                old = pre[w]["slots"]
                new = next(c for c in st.post["chans"] if c["name"] == w)["slots"]
                if new[: len(old)] != old:
                    fails.append(self.F("append-only", f"{name}: scheduled instructions changed", op=st.op["k"]))
        # reported durations
        if not seq.is_parametrized():
            aux = chan_aux(seq)
            tot = 0
            with warnings.catch_warnings():
                warnings.simplefilter("ignore")
                for name, a in aux.items():
                    d0 = seq.get_duration(name)
                    d1 = seq.get_duration(name, include_fall_time=True)
                    if d0 != a["end"]:
                        fails.append(self.F("duration", f"{name}: get_duration={d0} last end={a['end']}", op=st.op["k"]))
                    if d1 != end_with_fall(a):
                        fails.append(self.F("duration-fall", f"{name}: get_duration(fall)={d1} expected {end_with_fall(a)}", op=st.op["k"]))
                    tot = max(tot, a["end"])
                if seq.get_duration() != tot:
                    fails.append(self.F("seq-duration", f"get_duration()={seq.get_duration()} max={tot}", op=st.op["k"]))
        return fails


MONITORS = {"C02": MonC02}


# ==========================================================================
def new_slots(st, w):
    """Slots appended on channel `w` by this step (post minus pre)."""
    pre = next((c for c in st.pre["chans"] if c["name"] == w), None)
    post = next((c for c in st.post["chans"] if c["name"] == w), None)
    if post is None:
        return [], 0
    n0 = len(pre["slots"]) if pre else 0
    return post["slots"][n0:], n0


def within_limits(pulse: Pulse, ch, det_map=None):
    """Independent statement of 'inside every limit of the channel' -> (ok, which)."""
    amp = pulse.amplitude.samples.as_array(detach=True)
    det = pulse.detuning.samples.as_array(detach=True)
    if not (np.all(np.isfinite(amp)) and np.all(np.isfinite(det))):
        return False, "finite"
    if ch.max_amp is not None and np.any(amp > ch.max_amp):
        return False, "amp"
    if ch.max_abs_detuning is not None and np.any(np.round(np.abs(det), 6) > ch.max_abs_detuning):
        return False, "det"
    avg = np.average(amp)
    if 0 < avg < ch.min_avg_amp:
        return False, "avg"
    if isinstance(ch, DMM):
        rd = np.round(det, 6)
        if np.any(rd > 0):
            return False, "dmm-positive"
        w = det_map.weights if det_map is not None else np.array([1.0])
        if ch.bottom_detuning is not None and np.max(w) * np.min(rd) < ch.bottom_detuning:
            return False, "dmm-bottom"
        if ch.total_bottom_detuning is not None and np.sum(w) * np.min(rd) < ch.total_bottom_detuning:
            return False, "dmm-total-bottom"
    return True, None


def limit_margin(pulse: Pulse, ch, det_map=None) -> float:
    """Smallest relative distance of the pulse to any limit (to recognise 1-ulp boundary cases)."""
    amp = pulse.amplitude.samples.as_array(detach=True)
    det = pulse.detuning.samples.as_array(detach=True)
    m = []
    if ch.max_amp is not None:
        m.append(abs(float(np.max(amp)) - ch.max_amp))
    if ch.max_abs_detuning is not None:
        m.append(abs(float(np.max(np.round(np.abs(det), 6))) - ch.max_abs_detuning))
    if ch.min_avg_amp:
        m.append(abs(float(np.average(amp)) - ch.min_avg_amp))
    if isinstance(ch, DMM) and det_map is not None:
        rd = np.round(det, 6)
        if ch.bottom_detuning is not None:
            m.append(abs(float(np.max(det_map.weights) * np.min(rd)) - ch.bottom_detuning))
        if ch.total_bottom_detuning is not None:
            m.append(abs(float(np.sum(det_map.weights) * np.min(rd)) - ch.total_bottom_detuning))
    return min(m) if m else 1.0


class MonC01(Monitor):
    """Every scheduled pulse respects the limits of its channel and device."""

    prop = "C01"

    def pre(self, ls, op):
        self.pulse = None
        self.chobj = None
        self.detmap = None
        k = op["k"]
        if k not in ("add", "adddmm", "addeom"):
            return
        sch = ls.real.seq._schedule.get(real_name(op["ch"]))
        if sch is None:
            return
        self.chobj = sch.channel_obj
        self.detmap = getattr(sch, "detuning_map", None)
        try:
            with warnings.catch_warnings():
                warnings.simplefilter("ignore")
                if k == "add":
                    self.pulse = make_pulse(op["pulse"])
                elif k == "adddmm":
                    self.pulse = Pulse.ConstantAmplitude(0, make_wf(op["wf"]), 0)
                elif sch.eom_blocks:
                    b = sch.eom_blocks[-1]
                    self.pulse = Pulse.ConstantPulse(op["dur"], float(b.rabi_freq), float(b.detuning_on), 0.0)
        except Exception:
            self.pulse = None

    def post(self, ls, st):
        fails = []
        op = st.op
        k = op["k"]
        seq = ls.real.seq
        # (a) every pulse slot appended by this call, by whatever route, is within limits
        for name, sch in seq._schedule.items():
            w = wire_name(name)
            ch = sch.channel_obj
            new, n0 = new_slots(st, w)
            for j, sl in enumerate(new):
                if sl["k"] != "P":
                    continue
                real_slot = sch.slots[n0 + j]
                pulse = real_slot.type
                ok, which = within_limits(pulse, ch, getattr(sch, "detuning_map", None))
                if not ok:
                    fails.append(self.F("scheduled-over-limit", f"{name}: scheduled pulse violates {which}",
                                        op=k, which=which))
                d = int(pulse.duration)
                if d % ch.clock_period or d < ch.min_duration:
                    fails.append(self.F("scheduled-duration", f"{name}: scheduled duration {d} (clock {ch.clock_period}, min {ch.min_duration})", op=k))
                if ch.max_duration is not None and d > ch.max_duration:
                    fails.append(self.F("scheduled-over-max-duration",
                                        f"{name}: scheduled duration {d} > max_duration {ch.max_duration}",
                                        op=k, clock_divides_max=(ch.max_duration % ch.clock_period == 0)))
        mx = seq._device.max_sequence_duration
        if mx is not None and st.real[0] == "ok" and k in MUT_TIMELINE:
            tot = max((s.slots[-1].tf for s in seq._schedule.values() if s.slots), default=0)
            if tot > mx:
                fails.append(self.F("over-max-sequence-duration", f"sequence lasts {tot} > {mx}", op=k))
        # (b) converse: a pulse inside every limit is not refused for a limit reason, and is
        # scheduled unchanged (clock multiple) or lengthened to the next clock multiple
        if self.pulse is not None and self.chobj is not None:
            ch = self.chobj
            ok, which = within_limits(self.pulse, ch, self.detmap)
            d = int(self.pulse.duration)
            dur_ok = d >= ch.min_duration and (ch.max_duration is None or d <= ch.max_duration)
            margin = limit_margin(self.pulse, ch, self.detmap)
            # a pulse that has to be lengthened is scheduled with other samples: "inside every limit"
            # is required of the pulse as given AND as lengthened (the two clauses of the property
            # cannot both hold otherwise; the safety clause on the scheduled pulse prevails, F37)
            d2 = adjusted_duration(ch, d)
            if ok and d2 is not None and d2 != d:
                try:
                    with warnings.catch_warnings():
                        warnings.simplefilter("ignore")
                        adj = Pulse(self.pulse.amplitude.change_duration(d2), self.pulse.detuning.change_duration(d2),
                                    self.pulse.phase, self.pulse.post_phase_shift)
                    ok2, which2 = within_limits(adj, ch, self.detmap)
                    if not ok2:
                        ok, which = False, which2
                    margin = min(margin, limit_margin(adj, ch, self.detmap))
                except NotImplementedError:
                    pass
            if st.real[0] == "err" and st.real[1] in LIMIT_ERRS - {"overMaxSeq", "notResizable", "durTooShort", "durTooLong"}:
                if ok and margin > 1e-9:
                    fails.append(self.F("spurious-limit-rejection", f"pulse within limits refused with {st.real[1]}", op=k))
            # (the automatically inserted delay may itself exceed a small max_duration and be
            # refused with the same error class; only channels where that cannot happen count)
            big = ch.max_duration is None or ch.max_duration >= 10 ** 6
            if st.real[0] == "err" and st.real[1] in ("durTooShort", "durTooLong") and dur_ok and big:
                fails.append(self.F("spurious-duration-rejection", f"duration {d} within [{ch.min_duration},{ch.max_duration}] refused with {st.real[1]}", op=k))
            if st.real[0] == "ok" and not (ok and dur_ok) and margin > 1e-9 and which != "finite":
                fails.append(self.F("accepted-over-limit", f"pulse outside limits ({which or 'duration'}) accepted", op=k))
            if st.real[0] == "ok" and k != "est":
                new, _ = new_slots(st, op["ch"])
                ps = [s for s in new if s["k"] == "P" and not (s["dd"] and k == "addeom" and False)]
                if ps:
                    got = ps[-1]["dur"]
                    want = adjusted_duration(ch, d)
                    if want is not None and got != want:
                        fails.append(self.F("duration-adjustment", f"requested {d}, scheduled {got}, expected {want}", op=k))
        return fails


MUT_TIMELINE = {"declare", "detmap", "target", "add", "adddmm", "addeom", "delay", "align", "eomon", "eommod", "eomoff"}
MONITORS["C01"] = MonC01


# ==========================================================================
def strip_for_cmp(snap: dict) -> dict:
    return snap


class MonC09(Monitor):
    """A sequence is exactly the effect of its successful calls."""

    prop = "C09"
    READ_ONLY = {"dur", "est", "pref"}

    def begin(self, ls):
        self.n = 0
        self.tainted = False   # a non-atomic failure happened: the state is no longer a function
                               # of the successful calls, which that failure already reports

    def post(self, ls, st):
        fails = []
        k = st.op["k"]
        self.n += 1
        # a call that raises leaves the sequence exactly as it was
        if st.real[0] == "err" and st.pre != st.post:
            from realcode import diff_snap

            d = diff_snap(st.pre, st.post)
            what = "timeline" if "/slots" in d or "/eom" in d else ("refs" if "/refs" in d else "flags")
            self.tainted = True
            # the model is mutation-order faithful: it reproduces the residue of the KNOWN non-atomic
            # failures; a residue the model does not predict is something else (never matched as known)
            agrees = not (st.model is not None and st.diverged)
            fails.append(self.F("failed-call-not-atomic", f"{k} raised {st.real[1]} but changed the sequence: {d}"
                                + ("" if agrees else " (not the residue the model predicts)"),
                                op=k, err=st.real[1], what=what, model_agrees=agrees))
        # read-only operations never change it
        if k in self.READ_ONLY and st.real[0] == "ok" and st.pre != st.post:
            fails.append(self.F("query-not-pure", f"{k} changed the sequence", op=k))
        if self.n % 5 == 0:
            fails += self.readonly_battery(ls, st)
        return fails

    def readonly_battery(self, ls, st):
        """str / sample / durations / serialisation must not change the sequence."""
        fails = []
        seq = ls.real.seq
        before = ls.real.snapshot()
        calls_before = repr([(c.name, c.args, sorted(c.kwargs.items(), key=str)) for c in seq._calls[1:]])
        with warnings.catch_warnings():
            warnings.simplefilter("ignore")
            for name, fn in (
                ("str", lambda: str(seq)),
                ("sample", lambda: __import__("pulser.sampler", fromlist=["sample"]).sample(seq)),
                ("get_duration", lambda: seq.get_duration(include_fall_time=True)),
                ("to_abstract_repr", lambda: seq.to_abstract_repr()),
                ("_serialize", lambda: seq._serialize()),
            ):
                try:
                    fn()
                except Exception:
                    pass
                after = ls.real.snapshot()
                calls_after = repr([(c.name, c.args, sorted(c.kwargs.items(), key=str)) for c in seq._calls[1:]])
                if after != before:
                    fails.append(self.F("readonly-changes-state", f"{name} changed the sequence", op=name))
                    before = after
                if calls_after != calls_before:
                    fails.append(self.F("readonly-changes-calls", f"{name} changed the stored calls", op=name))
                    calls_before = calls_after
        return fails

    @staticmethod
    def deep_state(seq) -> dict:
        """Everything a failed call could leave behind, including what the model does not cover."""
        def slot(s):
            t = s.type
            return (t if isinstance(t, str) else ("P", int(t.duration), float(t.phase)), int(s.ti), int(s.tf),
                    sorted(map(str, s.targets)))
        return dict(
            calls=len(seq._calls), stored=len(seq._to_build_calls), xy=bool(seq._in_xy), ising=bool(seq._in_ising),
            mag=repr(seq._mag_field), slm_targets=sorted(map(str, seq._slm_mask_targets)), slm_dmm=repr(seq._slm_mask_dmm),
            building=bool(seq._building), empty=bool(seq._empty_sequence), measured=repr(getattr(seq, "_measurement", None)),
            variables=sorted(seq._variables),
            chans={n: ([slot(x) for x in sch.slots], [(int(b.ti), b.tf, repr(b.detuning_off)) for b in sch.eom_blocks])
                   for n, sch in seq._schedule.items()},
            refs={b: {str(q): (tuple(r.phase._times), tuple(map(float, r.phase._phases)), int(r.last_used))
                      for q, r in d.items()} for b, d in seq._basis_ref.items()},
        )

    def invalid_call_probe(self, ls):
        """Invalid calls of kinds the model does not cover (SLM mask, magnetic field, detuning map, unknown
        channel ids), tried on a deep copy of the sequence: each must raise and leave the copy as it was."""
        import copy

        fails = []
        dev = ls.real.dev
        q0 = dev.qids[0]
        try:
            base = copy.deepcopy(ls.real.seq)
        except Exception:  # noqa: BLE001
            return fails
        probes = [
            ("config_slm_mask(unknown dmm)", lambda s: s.config_slm_mask([q0], "dmm_99")),
            ("config_slm_mask(unknown qubit)", lambda s: s.config_slm_mask(["no_such_qubit"])),
            ("config_slm_mask(taken dmm)", lambda s: s.config_slm_mask([q0], "dmm_0")),
            ("set_magnetic_field(0,0,0)", lambda s: s.set_magnetic_field(0.0, 0.0, 0.0)),
            ("declare_channel(unknown id)", lambda s: s.declare_channel("zz_probe", "no_such_channel")),
            ("config_detuning_map(unknown dmm)",
             lambda s: s.config_detuning_map(s.register.define_detuning_map({q0: 1.0}), "dmm_99")),
            ("measure(unknown basis)", lambda s: s.measure("no_such_basis")),
        ]
        # the same calls (and a few more) on a FRESH sequence of the device whose first call was
        # config_slm_mask: the mask is pending, its DMM is declared by whatever call enters Ising mode
        bases = [("", base)]
        if dev.dmm_objs:
            try:
                with warnings.catch_warnings():
                    warnings.simplefilter("ignore")
                    fresh = dev.new_sequence()
                    fresh.config_slm_mask([q0], "dmm_0")
                bases.append(("after config_slm_mask on the empty sequence: ", fresh))
            except Exception:  # noqa: BLE001
                pass
        # ... and with a global channel declared on top: the first pulse on it also schedules the mask's
        # detuning on the DMM, whose own limits may refuse it
        gl = [i for i, c in enumerate(dev.spec["channels"]) if not c.get("local") and c["kind"] != "microwave"]
        if len(bases) == 2 and gl:
            try:
                with warnings.catch_warnings():
                    warnings.simplefilter("ignore")
                    fresh2 = copy.deepcopy(bases[1][1])
                    fresh2.declare_channel("zz_probe_ch", dev.chan_ids[gl[0]])
                bases.append(("after config_slm_mask and a global channel: ", fresh2))
            except Exception:  # noqa: BLE001
                pass
        first_pulse = [
            (f"add(first pulse of {d} ns, mask pending)",
             lambda s, d=d: s.add(Pulse.ConstantPulse(d, 1.0, 0.0, 0.0), "zz_probe_ch"))
            for d in (1, 4, 10, 16, 18, 21, 52, 400, 1200, 5000)
        ]
        pending = [
            ("config_detuning_map(the mask's dmm)",
             lambda s: s.config_detuning_map(s.register.define_detuning_map({q0: 1.0}), "dmm_0")),
            ("declare_channel(bad initial target)",
             lambda s: s.declare_channel("zz_probe", dev.chan_ids[0], initial_target="no_such_qubit")),
            ("config_slm_mask(second mask)", lambda s: s.config_slm_mask([q0], "dmm_0")),
        ]
        with warnings.catch_warnings():
            warnings.simplefilter("ignore")
            for prefix, base_i, name, fn in [(pf, b, n, f) for pf, b in bases
                                             for n, f in (first_pulse if "global channel" in pf
                                                          else probes + (pending if pf else []))]:
                name = prefix + name
                try:
                    seq = copy.deepcopy(base_i)
                    before = self.deep_state(seq)
                except Exception:  # noqa: BLE001
                    continue
                try:
                    fn(seq)
                except Exception as e:  # noqa: BLE001
                    after = self.deep_state(seq)
                    if after != before:
                        diff = sorted(k for k in before if before[k] != after[k])
                        # (a channel left declared also leaves the phase references of its basis: not a
                        # separate residue)
                        if "chans" in diff and "refs" in diff:
                            diff.remove("refs")
                        fails.append(self.F("failed-call-not-atomic",
                                            f"{name} raised {type(e).__name__} but changed {diff}",
                                            op=name[len(prefix):].split("(")[0], err=type(e).__name__,
                                            what=",".join(diff), probe=True, **({"pending_mask": True} if prefix else {})))
        return fails

    def end(self, ls):
        """The state is reproducible from the record of successful calls."""
        fails = self.invalid_call_probe(ls) if self.n % 3 == 0 else []
        seq = ls.real.seq
        if seq.is_parametrized() or not seq._schedule or self.tainted:
            return fails
        orig = ls.real.snapshot()
        from realcode import RealSeq, diff_snap

        def snap_of(other):
            r = RealSeq.__new__(RealSeq)
            r.dev = ls.real.dev
            r.seq = other
            return r.snapshot()

        with warnings.catch_warnings():
            warnings.simplefilter("ignore")
            from pulser import Sequence as _Seq

            for name, fn in (
                ("build", lambda: seq.build()),
                ("switch_register", lambda: seq.switch_register(ls.real.dev.register)),
                ("abstract-repr", lambda: _Seq.from_abstract_repr(seq.to_abstract_repr())),
            ):
                try:
                    other = fn()
                except Exception as e:  # noqa: BLE001
                    if name == "abstract-repr":
                        continue        # what can be serialised at all is C04's clause; here: a copy that EXISTS is identical
                    fails.append(self.F("replay-raises", f"{name} raised {type(e).__name__}: {str(e)[:80]}", op=name))
                    continue
                so, oo = snap_of(other), orig
                if name == "abstract-repr":
                    # (the decoder records an initial target as a call of its own: the timeline is what is compared)
                    # and declares the channels before it configures the detuning maps: channel ORDER is not
                    # part of a timeline (C04 compares the documents)
                    so, oo = dict(so), dict(oo)
                    so.pop("ncalls", None)
                    oo.pop("ncalls", None)
                    so["chans"] = sorted(so["chans"], key=lambda c: c["name"])
                    oo["chans"] = sorted(oo["chans"], key=lambda c: c["name"])
                d = diff_snap(so, oo, "", 1e-9)
                if d:
                    fails.append(self.F("replay-differs", f"{name} gives a different sequence: {d}", op=name))
                # a copy reproduces the calls of the original and shares no state with it:
                # changing the copy must not change the original
                vars_before = sorted(seq.declared_variables)
                calls_before = len(seq._calls) + len(seq._to_build_calls)
                try:
                    other.declare_variable("zz_probe_var")
                    if not other.is_measured():
                        for nm, sch in other._schedule.items():
                            if sch.slots:
                                other.delay(4 * max(sch.channel_obj.min_duration, sch.channel_obj.clock_period), nm)
                                break
                except Exception:  # noqa: BLE001
                    pass
                after = ls.real.snapshot()
                if (after != orig or sorted(seq.declared_variables) != vars_before
                        or len(seq._calls) + len(seq._to_build_calls) != calls_before):
                    fails.append(self.F("copy-shares-state", f"changing the result of {name} changed the original sequence", op=name))
        return fails


MONITORS["C09"] = MonC09


# ==========================================================================
class MonC13(Monitor):
    """Which building operations are accepted follows the documented typestate.

    A shadow of the documented *mode* is kept from the successful calls only; the
    typestate part of every verdict is predicted from it and compared."""

    prop = "C13"
    TIMELINE = {"declare", "detmap", "target", "add", "adddmm", "addeom", "delay", "align",
                "eomon", "eommod", "eomoff", "measure"}

    def begin(self, ls):
        spec = ls.dev.spec
        self.spec = spec
        self.reusable = bool(spec.get("reusable"))
        self.decl = {}          # wire name -> dict(id, dmm, local, eom, in_eom, has_target, xy)
        self.measured = False
        self.in_xy = False
        self.in_ising = False

    def expected(self, op):
        """Typestate verdict predicted from the documented mode: None (no typestate
        objection) or the name of the rule that must refuse the call."""
        k = op["k"]
        if k in self.TIMELINE and self.measured:
            return "measured"
        if k == "declare":
            if op["ch"] in self.decl:
                return "nameInUse"
            if op["id"] < len(self.spec["channels"]):
                c = self.spec["channels"][op["id"]]
                xy = c["kind"] == "microwave"
                if (self.in_xy and not xy) or (self.in_ising and xy):
                    return "xyConflict"
                used = any((not d["dmm"]) and d["id"] == op["id"] for d in self.decl.values())
                if used and not self.reusable:
                    return "notAvailable"
            return None
        if k == "detmap":
            if op["id"] < len(self.spec.get("dmms", [])):
                if self.in_xy:
                    return "xyConflict"
                used = any(d["dmm"] and d["id"] == op["id"] for d in self.decl.values())
                if used and not self.reusable:
                    return "notAvailable"
            return None
        ch = op.get("ch")
        if k in ("target", "add", "adddmm", "addeom", "delay", "eomon", "eommod", "eomoff", "est") or (
                k == "dur" and ch is not None):
            d = self.decl.get(ch)
            if d is None:
                return "notDeclared"
            if k in ("target", "add") and d["in_eom"]:
                return "inEom"
            if k in ("addeom", "eommod", "eomoff") and not d["in_eom"]:
                return "notInEom"
            if k == "eomon" and d["in_eom"]:
                return "alreadyInEom"
        return None

    def post(self, ls, st):
        fails = []
        op = st.op
        k = op["k"]
        exp = self.expected(op)
        got = st.real[1] if st.real[0] == "err" else None
        got_ts = got if got in TYPESTATE_ERRS else None
        if exp is not None and st.real[0] == "ok":
            fails.append(self.F("accepted-against-typestate", f"{k} accepted although the mode requires '{exp}'",
                                op=k, rule=exp))
        elif exp is not None and got_ts is None:
            # refused, but for an argument reason that is checked earlier: fine
            pass
        elif exp is None and got_ts is not None and got_ts not in ("noTarget",):
            fails.append(self.F("refused-against-typestate", f"{k} refused with '{got_ts}' although the mode allows it",
                                op=k, rule=got_ts))
        elif exp is not None and got_ts is not None and exp != got_ts and {exp, got_ts} != {"notAvailable", "xyConflict"}:
            # both refuse; which rule fires first is not part of the property
            pass
        # local channel needs a target before its first pulse
        if k in ("add", "addeom") and st.real[0] == "ok":
            d = self.decl.get(op["ch"])
            if d is not None and d["local"] and not d["has_target"]:
                fails.append(self.F("pulse-without-target", f"{k} accepted on a local channel without target", op=k))
        # update the shadow mode from the *successful calls only* (never from the state of the
        # implementation, which is what is being judged)
        spec = self.spec
        if st.real[0] == "ok":
            if k == "declare":
                c = spec["channels"][op["id"]]
                self.decl[op["ch"]] = dict(id=op["id"], dmm=False, local=bool(c["local"]), in_eom=False,
                                           has_target=(not c["local"]) or op.get("init") is not None)
                if c["kind"] == "microwave":
                    self.in_xy = True
                else:
                    self.in_ising = True
            elif k == "detmap":
                kk = sum(1 for d in self.decl.values() if d["dmm"] and d["id"] == op["id"])
                self.decl[f"d{op['id']}.{kk}"] = dict(id=op["id"], dmm=True, local=False, in_eom=False, has_target=True)
                self.in_ising = True
            elif k == "target":
                self.decl[op["ch"]]["has_target"] = True
            elif k == "eomon":
                self.decl[op["ch"]]["in_eom"] = True
            elif k == "eomoff":
                self.decl[op["ch"]]["in_eom"] = False
            elif k == "measure":
                self.measured = True
        elif st.pre != st.post:
            # a raising call that nevertheless changed the sequence (reported by C09): the mode is
            # no longer a function of the successful calls; follow the implementation from here
            seq = ls.real.seq
            decl = {}
            for name, sch in seq._schedule.items():
                w = wire_name(name)
                is_dmm = isinstance(sch.channel_obj, DMM)
                cid = int(sch.channel_id.split("_")[1]) if is_dmm else ls.dev.chan_ids.index(sch.channel_id)
                old = self.decl.get(w, {})
                decl[w] = dict(id=cid, dmm=is_dmm, local=sch.channel_obj.addressing == "Local",
                               in_eom=sch.in_eom_mode(), has_target=bool(sch.slots))
            self.decl = decl
            self.in_xy = bool(seq._in_xy)
            self.in_ising = bool(seq._in_ising)
        return fails


    def end(self, ls):
        """After measurement every timeline-changing call is refused — probed through the whole
        public API (including calls the model does not cover, e.g. config_slm_mask)."""
        fails = []
        seq = ls.real.seq
        if seq.is_parametrized() or not seq._schedule:
            return fails
        with warnings.catch_warnings():
            warnings.simplefilter("ignore")
            if not seq.is_measured():
                basis = "XY" if seq._in_xy else next(iter(seq._basis_ref), None)
                try:
                    seq.measure(basis)
                except Exception:
                    return fails
            names = list(seq._schedule)
            nm = names[0]
            q0 = ls.dev.qids[0]
            pulse = Pulse.ConstantPulse(max(seq._schedule[nm].channel_obj.min_duration, 16) * 4, 0.0, 0.0, 0.0)
            free = [i for i in ls.dev.chan_ids if i not in {s.channel_id for s in seq._schedule.values()}]
            probes = [
                ("declare_channel", lambda: seq.declare_channel("probe_new", (free or ls.dev.chan_ids)[0])),
                ("target", lambda: seq.target(q0, nm)),
                ("add", lambda: seq.add(pulse, nm)),
                ("delay", lambda: seq.delay(pulse.duration, nm)),
                ("align", lambda: seq.align(*names[:2]) if len(names) > 1 else seq.delay(pulse.duration, nm)),
                ("enable_eom_mode", lambda: seq.enable_eom_mode(nm, 1.0, 0.0)),
                ("disable_eom_mode", lambda: seq.disable_eom_mode(nm)),
                ("add_eom_pulse", lambda: seq.add_eom_pulse(nm, pulse.duration, 0.0)),
                ("modify_eom_setpoint", lambda: seq.modify_eom_setpoint(nm, 1.0, 0.0)),
                ("measure", lambda: seq.measure(seq.get_measurement_basis())),
            ]
            if ls.dev.dmm_objs:
                dm = ls.dev.register.define_detuning_map({q: 1.0 / ls.dev.nq for q in ls.dev.qids})
                probes.append(("config_detuning_map", lambda: seq.config_detuning_map(dm, "dmm_0")))
                probes.append(("config_slm_mask", lambda: seq.config_slm_mask([q0], "dmm_0")))
                dmm_names = [n for n, s in seq._schedule.items() if isinstance(s.channel_obj, DMM)]
                if dmm_names:
                    from pulser.waveforms import ConstantWaveform as CW
                    probes.append(("add_dmm_detuning", lambda: seq.add_dmm_detuning(CW(64, -1.0), dmm_names[0])))
            for name, fn in probes:
                before = ls.real.snapshot()
                try:
                    fn()
                    raised = None
                except Exception as e:  # noqa: BLE001
                    raised = e
                after = ls.real.snapshot()
                changed = before["chans"] != after["chans"]
                if changed:
                    fails.append(self.F("timeline-changed-after-measure",
                                        f"{name} after measure() changed the timeline"
                                        + ("" if raised is None else f" (and raised {type(raised).__name__})"),
                                        op=name, raised=raised is not None))
            # ... and a measurement made before the first variable is used still counts afterwards
            try:
                var = seq.declare_variable("after_measure_probe", dtype=int)
                accepted = []
                for name, fn in (("delay(var)", lambda: seq.delay(var, nm)),
                                 ("add(var)", lambda: seq.add(Pulse.ConstantPulse(var, 0.0, 0.0, 0.0), nm)),
                                 ("measure", lambda: seq.measure(basis_m))):
                    basis_m = "XY" if seq._in_xy else next(iter(seq._basis_ref), None)
                    try:
                        fn()
                        accepted.append(name)
                    except Exception:  # noqa: BLE001
                        pass
                if accepted or not seq.is_measured():
                    fails.append(self.F("measured-forgotten-when-parametrized",
                                        f"after measure() and the first use of a variable: accepted {accepted}, "
                                        f"is_measured()={seq.is_measured()}", op="measure+variable"))
            except Exception:  # noqa: BLE001
                pass
        fails += self.parametrized_probe(ls)
        return fails

    def parametrized_probe(self, ls):
        """Once a variable is used the sequence is parametrized: inspection calls are refused
        and the declaration rules keep holding (the calls are only stored, not executed)."""
        fails = []
        dev = ls.dev
        from pulser import Sequence as _Seq

        with warnings.catch_warnings():
            warnings.simplefilter("ignore")
            try:
                seq = _Seq(dev.register, dev.device)
                # declare every regular channel once, configure every DMM once
                xy = [i for i, c in enumerate(self.spec["channels"]) if c["kind"] == "microwave"]
                ids = xy if xy else [i for i, c in enumerate(self.spec["channels"]) if c["kind"] != "microwave"]
                for n, i in enumerate(ids[:2]):
                    c = self.spec["channels"][i]
                    seq.declare_channel(f"p{n}", dev.chan_ids[i],
                                        initial_target=dev.qids[0] if c["local"] else None)
                first = "p0"
                var = seq.declare_variable("dly", dtype=int)
                seq.delay(var, first)
            except Exception:  # noqa: BLE001
                return fails
            if not seq.is_parametrized():
                fails.append(self.F("not-parametrized", "using a variable did not make the sequence parametrized", op="delay"))
                return fails
            for name, fn in (("get_duration", lambda: seq.get_duration()),
                             ("current_phase_ref", lambda: seq.current_phase_ref(dev.qids[0], next(iter(seq._basis_ref)))),
                             ("draw", lambda: seq.draw(show=False))):
                try:
                    fn()
                    fails.append(self.F("inspection-accepted-when-parametrized", f"{name} accepted on a parametrized sequence", op=name))
                except RuntimeError:
                    pass
                except Exception:  # noqa: BLE001
                    pass
            if not dev.spec.get("reusable"):
                # each channel / DMM once, also while the calls are only being stored
                try:
                    seq.declare_channel("p_again", dev.chan_ids[ids[0]])
                    fails.append(self.F("declared-twice-when-parametrized", "a channel was declared twice on a device without reusable channels (parametrized)", op="declare_channel"))
                except Exception:  # noqa: BLE001
                    pass
                if dev.dmm_objs and not xy:
                    dm = dev.register.define_detuning_map({q: 1.0 / dev.nq for q in dev.qids})
                    try:
                        seq.config_detuning_map(dm, "dmm_0")
                        ok1 = True
                    except Exception:  # noqa: BLE001
                        ok1 = False
                    if ok1:
                        try:
                            seq.config_detuning_map(dm, "dmm_0")
                            fails.append(self.F("declared-twice-when-parametrized", "a DMM was configured twice on a device without reusable channels (parametrized)", op="config_detuning_map"))
                        except Exception:  # noqa: BLE001
                            pass
            try:
                seq.declare_channel(first, dev.chan_ids[ids[0]])
                fails.append(self.F("name-twice-when-parametrized", "a channel name was declared twice (parametrized)", op="declare_channel"))
            except Exception:  # noqa: BLE001
                pass
        fails += self.parametrized_eom_walk(ls)
        return fails

    _EOM_DEV = None

    def parametrized_eom_walk(self, ls):
        """The EOM typestate while the calls are only stored: a random walk over two EOM-capable channels
        and one without EOM on a parametrized sequence; every verdict is predicted from a shadow that is
        updated from the accepted calls only."""
        import random
        from realcode import Dev
        from pulser import Sequence as _Seq

        fails = []
        if MonC13._EOM_DEV is None:
            from gen import gen_eom

            r0 = random.Random(7)
            def ch(local, eom):
                c = dict(kind="rydberg", local=local, clock_period=4, min_duration=16, mod_bandwidth=4,
                         max_duration=100000000, custom_phase_jump_time=None, max_amp=31.4, max_abs_detuning=125.6)
                if local:
                    c.update(min_retarget_interval=220, fixed_retarget_t=0, max_targets=2)
                if eom:
                    c["eom"] = gen_eom(r0)
                return c
            MonC13._EOM_DEV = Dev(dict(channels=[ch(False, True), ch(True, True), ch(False, False)], dmms=[], nq=2,
                                       reusable=True, max_seq=None))
        dev = MonC13._EOM_DEV
        rng = random.Random(len(ls.steps) * 7919 + ls.nref)
        with warnings.catch_warnings():
            warnings.simplefilter("ignore")
            try:
                seq = _Seq(dev.register, dev.device)
                names = ["e0", "e1", "n2"]
                has_eom = {"e0": True, "e1": True, "n2": False}
                seq.declare_channel("e0", dev.chan_ids[0])
                seq.declare_channel("e1", dev.chan_ids[1], initial_target=dev.qids[0])
                seq.declare_channel("n2", dev.chan_ids[2])
                if rng.random() < 0.5:       # EOM entered before the sequence becomes parametrized
                    seq.enable_eom_mode("e0", 1.0, 0.0)
                var = seq.declare_variable("w", dtype=int)
                seq.delay(var, "n2")
            except Exception:  # noqa: BLE001
                return fails
            in_eom = {n: bool(seq.is_in_eom_mode(n)) for n in names}
            fails += self.refused_variable_calls(dev, rng)
            for _ in range(14):
                n = rng.choice(names)
                kind = rng.choice(["enable", "disable", "add", "add_eom", "modify"])
                calls = {
                    "enable": lambda: seq.enable_eom_mode(n, 1.0, 0.0),
                    "disable": lambda: seq.disable_eom_mode(n),
                    "add": lambda: seq.add(Pulse.ConstantPulse(var, 1.0, 0.0, 0.0), n),
                    "add_eom": lambda: seq.add_eom_pulse(n, var, 0.0),
                    "modify": lambda: seq.modify_eom_setpoint(n, 2.0, 0.0),
                }
                want_ok = {"enable": has_eom[n] and not in_eom[n], "disable": in_eom[n], "add": not in_eom[n],
                           "add_eom": in_eom[n], "modify": in_eom[n]}[kind]
                try:
                    calls[kind]()
                    ok = True
                except Exception:  # noqa: BLE001
                    ok = False
                if ok != want_ok:
                    fails.append(self.F("eom-typestate-when-parametrized",
                                        f"{kind} on {n} ({'in' if in_eom[n] else 'not in'} EOM mode, other channels "
                                        f"{ {m: in_eom[m] for m in names if m != n} }) was "
                                        f"{'accepted' if ok else 'refused'}", op=kind, accepted=ok))
                    break
                if ok and kind == "enable":
                    in_eom[n] = True
                elif ok and kind == "disable":
                    in_eom[n] = False
        return fails


    def refused_variable_calls(self, dev, rng):
        """A call that is REFUSED for the mode the sequence is in (RuntimeError kinds: EOM mode mismatch,
        measured) does not make the sequence parametrized, even when it carries one of its own variables:
        the mode is a function of the accepted calls only."""
        from pulser import Sequence as _Seq

        fails = []
        try:
            seq = _Seq(dev.register, dev.device)
            seq.declare_channel("e0", dev.chan_ids[0])
            seq.declare_channel("n2", dev.chan_ids[2])
            var = seq.declare_variable("rv", dtype=int)
        except Exception:  # noqa: BLE001
            return fails
        kind = rng.choice(["eom_pulse_outside", "add_inside", "enable_twice", "after_measure"])
        try:
            if kind == "eom_pulse_outside":
                call = lambda: seq.add_eom_pulse("e0", var, 0.0)
            elif kind == "add_inside":
                seq.enable_eom_mode("e0", 1.0, 0.0)
                call = lambda: seq.add(Pulse.ConstantPulse(var, 1.0, 0.0, 0.0), "e0")
            elif kind == "enable_twice":
                seq.enable_eom_mode("e0", 1.0, 0.0)
                call = lambda: seq.enable_eom_mode("e0", var, 0.0)
            else:
                seq.add(Pulse.ConstantPulse(100, 1.0, 0.0, 0.0), "n2")
                seq.measure("ground-rydberg")
                call = lambda: seq.delay(var, "n2")
        except Exception:  # noqa: BLE001
            return fails
        before = bool(seq.is_parametrized())
        try:
            call()
            refused = False
        except Exception:  # noqa: BLE001
            refused = True
        if refused and bool(seq.is_parametrized()) != before:
            fails.append(self.F("refused-call-parametrizes",
                                f"a refused call carrying an own variable ({kind}) turned the sequence parametrized",
                                op=kind))
        if not refused:
            fails.append(self.F("mode-call-accepted-with-variable", f"{kind} was accepted", op=kind))
        return fails


MONITORS["C13"] = MonC13


# ==========================================================================
def mod2pi_close(a: float, b: float, tol=1e-9) -> bool:
    d = abs(a - b) % TWO_PI
    return min(d, TWO_PI - d) <= tol


class PreAux:
    """Facts of the real PRE-state needed to judge an add/target/align afterwards."""

    def __init__(self, ls, op):
        seq = ls.real.seq
        self.aux = chan_aux(seq)
        self.refs = {
            b: {q: (list(r.phase._times), [float(p) for p in r.phase._phases], int(r.last_used))
                for q, r in d.items()}
            for b, d in seq._basis_ref.items()
        }
        self.est = None
        self.durs = {}
        with warnings.catch_warnings():
            warnings.simplefilter("ignore")
            if not seq.is_parametrized():
                for name in seq._schedule:
                    self.durs[name] = (seq.get_duration(name), seq.get_duration(name, include_fall_time=True))
            if op["k"] == "add" and not seq.is_parametrized():
                try:
                    self.est = ("ok", int(seq.estimate_added_delay(make_pulse(op["pulse"]), real_name(op["ch"]), op["proto"])))
                except Exception as e:  # noqa: BLE001
                    self.est = ("err", type(e).__name__)


HYP = {"pulses": 0, "A2_false": 0}   # coverage of the fall-time hypotheses (reported in the C03 evidence)


class MonC03(Monitor):
    """Addressing-conflict protocols: no conflict, minimal delay, exact estimate; align."""

    prop = "C03"

    def begin(self, ls):
        # independent shadow of the phase-shift barriers (never reads the implementation's reference
        # objects): last use of every (basis, atom) = latest end of a user pulse on it, and the time of
        # its latest phase shift = its last use when the shift was made
        self.lu = {}
        self.bar = {}
        self.sh_ok = True

    def shadow_update(self, ls, st):
        op, k = st.op, st.op["k"]
        if op.get("corr"):
            self.sh_ok = False          # drift corrections shift by amounts the harness does not recompute
        if st.real[0] != "ok" or not self.sh_ok:
            return
        seq = ls.real.seq
        if k in ("add", "addeom", "adddmm"):
            sch = seq._schedule.get(real_name(op["ch"]))
            if sch is None or not sch.slots or not isinstance(sch.slots[-1].type, Pulse):
                return
            sl = sch.slots[-1]
            b = sch.channel_obj.basis
            for q in sl.targets:
                self.lu[(b, q)] = max(self.lu.get((b, q), 0), int(sl.tf))
            if float(sl.type.post_phase_shift) != 0.0:
                for q in sl.targets:
                    self.bar[(b, q)] = max(self.bar.get((b, q), 0), self.lu[(b, q)])
        elif k == "shift":
            b = op["basis"]
            qs = [ls.dev.qids[i] for i in op["qs"] if i < ls.dev.nq] if op["qs"] else list(ls.dev.qids)
            for q in qs:
                self.bar[(b, q)] = max(self.bar.get((b, q), 0), self.lu.get((b, q), 0))

    def pre(self, ls, op):
        self.p = PreAux(ls, op) if op["k"] in ("add", "addeom", "adddmm", "align") else None
        self.bar_pre = dict(self.bar) if self.sh_ok else None

    def post(self, ls, st):
        try:
            return self.judge(ls, st)
        finally:
            self.shadow_update(ls, st)

    def judge(self, ls, st):
        fails = []
        op = st.op
        k = op["k"]
        if self.p is None or st.real[0] != "ok":
            return fails
        seq = ls.real.seq
        if k == "align":
            return self.post_align(ls, st)
        name = real_name(op["ch"])
        pre = self.p.aux.get(name)
        if pre is None or not pre["slots"]:
            return fails
        # oracle hypotheses of the Lean theorem C03.no_conflict, on every pulse present before the call:
        # A1 fall <= 2 * rise time of its modulation (a failure means the theorem no longer covers the code);
        # A2 fall(EOM) <= fall(standard) is only counted (false for EOMs slower than the channel)
        for oname, a in self.p.aux.items():
            och = a["ch"]
            for sl in a["slots"]:
                if sl[0] != "P":
                    continue
                HYP["pulses"] += 1
                if sl[4] > 2 * doc_rise_time(och) or (och.supports_eom() and sl[5] > 2 * doc_rise_time(och.eom_config)):
                    fails.append(self.F("fall-hypothesis-A1", f"{oname}: fall times ({sl[4]}, {sl[5]}) exceed twice the rise time "
                                        f"({doc_rise_time(och)}, {doc_rise_time(och.eom_config) if och.supports_eom() else '-'})", op=k))
                if och.supports_eom() and sl[5] > sl[4]:
                    HYP["A2_false"] += 1
        ch = pre["ch"]
        t0 = pre["end"]
        my_targets = pre["slots"][-1][3]
        new, _ = new_slots(st, op["ch"])
        pulses = [s for s in new if s["k"] == "P"]
        if not pulses:
            return fails
        ti_new = pulses[-1]["ti"]
        proto = op["proto"]
        basis = ch.basis
        B = max([self.p.refs[basis][q][0][-1] for q in my_targets] + [0]) if basis in self.p.refs else 0
        if self.bar_pre is not None:
            Bs = max([self.bar_pre.get((basis, q), 0) for q in my_targets] + [0])
            if Bs != B:
                fails.append(self.F("barrier", f"phase-shift barrier of the targets is {B} in the sequence but the "
                                    f"latest phase shift of a target atom was made at {Bs}", op=k))
                B = Bs
        # ends of the most recent relevant pulse of every other channel (fall in that channel's current mode)
        ends = []
        for oname, a in self.p.aux.items():
            if oname == name:
                continue
            for s in reversed(a["slots"]):
                if s[0] != "P":
                    continue
                if proto == "wait-for-all" or (s[3] & my_targets):
                    ends.append(s[2] + (s[5] if a["in_eom"] else s[4]))
                    break
        if proto in ("min-delay", "wait-for-all"):
            for e in ends:
                if ti_new < e:
                    fails.append(self.F("conflict", f"{proto}: pulse starts at {ti_new} before another channel's pulse ends at {e}", op=k, proto=proto))
            # earliest allowed instant (no drift-corrected EOM pulses: their compared phase is internal)
            if not (k == "addeom" and op.get("corr")):
                buf = 0
                last_p = next((s for s in reversed(pre["slots"]) if s[0] == "P" and not s[6]), None)
                if last_p is not None and not mod2pi_close(last_p[7], float(Fraction(pulses[-1]["ph"])), 0.0):
                    fall = last_p[5] if pre["in_eom"] else last_p[4]
                    eom_wait = (2 * max(doc_rise_time(ch), doc_rise_time(ch.eom_config)) if pre["in_eom"] else 0)
                    buf = max(doc_phase_jump_time(ch), eom_wait) + fall - (t0 - last_p[2])
                need = max([t0, B] + ends) - t0
                want = t0 + least_valid_gap(ch, max(need, buf))
                if ti_new != want:
                    fails.append(self.F("not-minimal", f"{proto}: pulse starts at {ti_new}, earliest allowed instant is {want}", op=k, proto=proto))
        elif proto == "no-delay":
            want = t0 + least_valid_gap(ch, max(t0, B) - t0)
            if ti_new != want:
                fails.append(self.F("no-delay-start", f"no-delay: pulse starts at {ti_new}, expected {want}", op=k))
            elif ti_new != max(t0, B):
                fails.append(self.F("no-delay-literal", f"no-delay: pulse starts at {ti_new}, not at max(end, barrier)={max(t0, B)} "
                                    f"(the gap {max(t0, B) - t0} is not a valid delay on this channel)", op=k))
        if k == "add" and self.p.est is not None:
            if self.p.est[0] != "ok" or self.p.est[1] != ti_new - t0:
                fails.append(self.F("estimate", f"estimate_added_delay={self.p.est} but the add inserted {ti_new - t0}", op=k))
        return fails

    def post_align(self, ls, st):
        fails = []
        op = st.op
        at_rest = op.get("at_rest", True)
        names = [real_name(c) for c in op["chs"]]
        if any(n not in self.p.durs for n in names):
            return fails
        # ends (and ends including the pending fall time) recomputed from the timeline, not asked of
        # the implementation's get_duration
        ownd = {n: (self.p.aux[n]["end"], end_with_fall(self.p.aux[n])) for n in names if n in self.p.aux}
        if any(n not in ownd for n in names):
            return fails
        T = max(ownd[n][1 if at_rest else 0] for n in names)
        seq = ls.real.seq
        ends = {}
        for n in names:
            ch = seq._schedule[n].channel_obj
            e0 = ownd[n][0]
            ends[n] = seq.get_duration(n)
            want = e0 + least_valid_gap(ch, T - e0)
            if ends[n] != want:
                lit = ends[n] < T
                fails.append(self.F("align-end", f"align(at_rest={at_rest}): {n} ends at {ends[n]}, expected {want} (latest end {T})",
                                    op="align", at_rest=at_rest, before_latest=lit))
        if len(set(ends.values())) != 1 and not fails:
            fails.append(self.F("align-literal", f"aligned channels end at {sorted(ends.values())} (gaps below the minimum duration / off the clock grid cannot be inserted)", op="align"))
        return fails


MONITORS["C03"] = MonC03


class MonC10(Monitor):
    """Phase-jump time and retarget intervals are honoured."""

    prop = "C10"

    def pre(self, ls, op):
        self.p = PreAux(ls, op) if op["k"] in ("add", "addeom", "target", "declare") else None

    def post(self, ls, st):
        fails = []
        op = st.op
        k = op["k"]
        if self.p is None or st.real[0] != "ok":
            return fails
        name = real_name(op["ch"])
        pre = self.p.aux.get(name)
        new, n0 = new_slots(st, op["ch"])
        if k in ("add", "addeom"):
            if pre is None or op["proto"] == "no-delay":
                return fails
            ch = pre["ch"]
            pulses = [s for s in new if s["k"] == "P"]
            last_p = next((s for s in reversed(pre["slots"]) if s[0] == "P" and not s[6]), None)
            if pulses and last_p is not None:
                ph_new = float(Fraction(pulses[-1]["ph"]))
                if last_p[7] != ph_new:
                    fall = last_p[5] if pre["in_eom"] else last_p[4]
                    base = (max(doc_phase_jump_time(ch), 2 * doc_rise_time(ch.eom_config)) if pre["in_eom"]
                            else doc_phase_jump_time(ch))
                    gap = pulses[-1]["ti"] - last_p[2]
                    if gap < base + fall:
                        fails.append(self.F("phase-jump-gap", f"pulses of phase {last_p[7]} and {ph_new} are {gap} ns apart, "
                                            f"need phase-jump time {base} + fall {fall}", op=k, in_eom=pre["in_eom"],
                                            eom_slower=bool(pre["in_eom"] and doc_rise_time(ch.eom_config) > doc_rise_time(ch))))
        else:  # target / declare with initial target
            ch = (pre or {}).get("ch") or ls.real.chobj(op["ch"])
            if ch is None or ch.addressing != "Local":
                return fails
            tslots = [s for s in new if s["k"] == "T"]
            prev_slots = pre["slots"] if pre else []
            qs = set(ls.dev.qids[i] for i in (op["qs"] if k == "target" else (op.get("init") or [])) if i < ls.dev.nq)
            if prev_slots and prev_slots[-1][3] == qs:
                if new and k == "target":
                    fails.append(self.F("same-target-noop", f"retargeting to the same atoms inserted {[(s['k'], s['ti'], s['tf']) for s in new]}", op=k))
                return fails
            for t in tslots:
                if t["ti"] == -1:
                    continue
                prev_t = next((s for s in reversed(prev_slots) if s[0] == "T"), None)
                if prev_t is not None and t["tf"] - prev_t[2] < (ch.min_retarget_interval or 0):
                    fails.append(self.F("retarget-interval", f"target ends {t['tf'] - prev_t[2]} ns after the previous target end, minimum {ch.min_retarget_interval}", op=k))
                if t["tf"] - t["ti"] < (ch.fixed_retarget_t or 0):
                    fails.append(self.F("fixed-retarget", f"retarget lasts {t['tf'] - t['ti']} < fixed_retarget_t {ch.fixed_retarget_t}", op=k))
                lastp = next((s for s in reversed(prev_slots) if s[0] == "P"), None)
                if lastp is not None and lastp[2] + lastp[4] > t["ti"]:
                    fails.append(self.F("retarget-before-fall", f"retarget begins at {t['ti']} before the previous pulse has ramped down ({lastp[2]}+{lastp[4]})", op=k))
        return fails


MONITORS["C10"] = MonC10


# ==========================================================================
class MonC07(Monitor):
    """Phase references (virtual-Z) are additive and applied to every pulse."""

    prop = "C07"

    def begin(self, ls):
        self.ghost = {}      # (basis, qid) -> sum of all shifts applied so far (unreduced float)

    def pre(self, ls, op):
        self.p = PreAux(ls, op)

    def resync(self, ls):
        for b, d in ls.real.seq._basis_ref.items():
            for q, r in d.items():
                self.ghost[(b, q)] = float(r.phase.last_phase)

    def post(self, ls, st):
        fails = []
        op = st.op
        k = op["k"]
        seq = ls.real.seq
        # references of newly addressed bases start at 0
        for b, d in seq._basis_ref.items():
            for q in d:
                self.ghost.setdefault((b, q), 0.0)
        if st.real[0] != "ok":
            return fails
        uses_drift = bool(op.get("corr")) and k in ("addeom", "eomon", "eommod", "eomoff")
        name = real_name(op["ch"]) if "ch" in op and op.get("ch") else None
        pre = self.p.aux.get(name) if name else None
        if k == "shift":
            qs = [ls.dev.qids[i] for i in op["qs"]] or list(ls.dev.qids)
            for q in qs:
                self.ghost[(op["basis"], q)] += float(op["phi"])
            # basis separation: other bases untouched
            for b, d in self.p.refs.items():
                if b == op["basis"]:
                    continue
                for q, (ts, phs, used) in d.items():
                    now = seq._basis_ref[b][q].phase
                    if list(now._times) != ts or [float(x) for x in now._phases] != phs:
                        fails.append(self.F("basis-separation", f"shift in {op['basis']} changed the reference of {q} in {b}", op=k))
        if k in ("add", "addeom", "adddmm") and pre is not None and pre["slots"]:
            ch = pre["ch"]
            basis = ch.basis
            targets = pre["slots"][-1][3]
            new, _ = new_slots(st, op["ch"])
            pulses = [s for s in new if s["k"] == "P"]
            if pulses and not isinstance(ch, DMM):
                ps = pulses[-1]
                # barrier: never before the latest phase shift of its targets
                B = max(self.p.refs[basis][q][0][-1] for q in targets)
                if ps["ti"] < B:
                    fails.append(self.F("barrier", f"pulse starts at {ps['ti']} before the latest phase shift of its targets at {B}", op=k))
                # scheduled phase = programmed phase + reference of its targets when it was added
                if not uses_drift:
                    prog = float(op["pulse"]["phase"]) if k == "add" else float(op["phase"])
                    refs = {self.p.refs[basis][q][1][-1] for q in targets}
                    ref = refs.pop()
                    got = float(Fraction(ps["ph"]))
                    if refs or not mod2pi_close(got, prog + ref, 1e-9):
                        fails.append(self.F("pulse-phase", f"scheduled phase {got} != programmed {prog} + reference {ref} (mod 2pi)", op=k))
                post_shift = float(op["pulse"].get("post", 0.0)) if k == "add" else float(op.get("post", 0.0))
                if not uses_drift:
                    for q in targets:
                        self.ghost[(basis, q)] += post_shift
        if uses_drift:
            self.resync(ls)      # the drift amount is computed by the library; C15 owns it
            return fails
        # additivity: every current reference equals the sum of the shifts applied, mod 2pi
        for (b, q), tot in self.ghost.items():
            if b not in seq._basis_ref:
                continue
            cur = float(seq._basis_ref[b][q].phase.last_phase)
            if not mod2pi_close(cur, tot, 1e-7):
                fails.append(self.F("additive", f"reference of {q} in {b} is {cur}, sum of shifts is {tot % TWO_PI}", op=k))
                self.ghost[(b, q)] = cur
            if not (0.0 <= cur < TWO_PI + 1e-12):
                fails.append(self.F("range", f"reference {cur} outside [0, 2pi)", op=k))
        with warnings.catch_warnings():
            warnings.simplefilter("ignore")
            if not seq.is_parametrized():
                for b in seq._basis_ref:
                    for q in ls.dev.qids[:2]:
                        api = seq.current_phase_ref(q, b)
                        if api != float(seq._basis_ref[b][q].phase.last_phase):
                            fails.append(self.F("api", "current_phase_ref differs from the tracker", op=k))
        return fails


MONITORS["C07"] = MonC07


class MonC15(Monitor):
    """EOM mode: square pulses, physical off-detuning, buffers."""

    prop = "C15"

    def pre(self, ls, op):
        self.p = PreAux(ls, op) if op["k"] in ("eomon", "eommod", "eomoff", "addeom", "delay") else None

    def post(self, ls, st):
        fails = []
        op = st.op
        k = op["k"]
        seq = ls.real.seq
        # (a) inside every EOM block: only EOM pulses at the block's setpoint or detuned delays
        for name, sch in seq._schedule.items():
            if not sch.eom_blocks:
                continue
            end = sch.slots[-1].tf if sch.slots else 0
            for b in sch.eom_blocks:
                b_end = end if b.tf is None else b.tf
                for s in sch.slots:
                    if s.ti < b.ti or s.ti >= b_end or s.ti == -1:
                        continue
                    if isinstance(s.type, Pulse):
                        p = s.type
                        amp = p.amplitude.samples.as_array(detach=True)
                        det = p.detuning.samples.as_array(detach=True)
                        square = np.all(amp == amp[0]) and np.all(det == det[0])
                        is_on = square and amp[0] == float(b.rabi_freq) and det[0] == float(b.detuning_on)
                        is_off = square and amp[0] == 0.0 and det[0] == float(b.detuning_off)
                        if not (is_on or is_off):
                            fails.append(self.F("eom-pulse-not-setpoint", f"{name}: pulse at {s.ti} in EOM block "
                                                f"[{b.ti},{b.tf}) has amp {amp[0]}, det {det[0]} (setpoint {float(b.rabi_freq)}, "
                                                f"{float(b.detuning_on)}, off {float(b.detuning_off)})", op=k))
                    elif s.type == "delay" and float(b.detuning_off) != 0.0 and s.tf > s.ti:
                        fails.append(self.F("eom-idle-not-detuned", f"{name}: plain delay [{s.ti},{s.tf}) inside an EOM block with detuning_off {float(b.detuning_off)}", op=k))
        if self.p is None or st.real[0] != "ok":
            return fails
        name = real_name(op["ch"])
        sch = seq._schedule.get(name)
        pre = self.p.aux.get(name)
        if sch is None or pre is None:
            return fails
        ch = sch.channel_obj
        new, n0 = new_slots(st, op["ch"])
        if k in ("eomon", "eommod"):
            b = sch.eom_blocks[-1]
            # (b) the off detuning is the allowed option closest to the requested optimum
            opts = ch.eom_config.detuning_off_options(op["amp"], op["det_on"]).as_array(detach=True)
            # ... and the allowed set is the documented one: the detuning felt while each switchable
            # combination of beams is off (light shifts of the beams that stay on), recomputed here
            doc = doc_detuning_off_options(ch.eom_config, float(op["amp"]), float(op["det_on"]))
            if len(doc) != len(opts) or any(abs(a - float(o)) > 1e-9 * max(1.0, abs(a)) for a, o in zip(doc, opts)):
                fails.append(self.F("detuning-off-options", f"allowed off-detunings {[float(o) for o in opts]} differ from the "
                                    f"light-shift formula {doc}", op=k))
            chosen = float(b.detuning_off)
            if not np.any(opts == chosen):
                fails.append(self.F("detuning-off-not-allowed", f"detuning_off {chosen} not among the options {list(opts)}", op=k))
            best = np.min(np.abs(opts - op.get("optimal", 0.0)))
            if abs(chosen - op.get("optimal", 0.0)) > best + 1e-9:
                fails.append(self.F("detuning-off-not-closest", f"chose {chosen}, closest option is at distance {best}", op=k))
            if float(b.rabi_freq) != float(op["amp"]) or float(b.detuning_on) != float(op["det_on"]):
                fails.append(self.F("setpoint", "EOM block does not carry the requested setpoint", op=k))
            # (c) buffers: non-empty channel -> (fall wait,) then a buffer of adjust(buffer_time)
            t0 = pre["end"]
            if t0 > 0:
                want_buf = least_valid_gap(ch, configured_eom_buffer(ch))
                fall_wait = 0
                if k == "eomon":
                    fall = end_with_fall(pre) - t0
                    fall_wait = least_valid_gap(ch, fall) if fall > 0 else 0
                got = b.ti - t0
                if got != fall_wait + want_buf:
                    fails.append(self.F("enable-buffer", f"block starts {got} after the channel end, expected fall wait {fall_wait} + buffer {want_buf}", op=k))
            elif b.ti != t0:
                fails.append(self.F("enable-buffer", "buffer inserted on an empty channel", op=k))
        if k == "eomoff":
            b = sch.eom_blocks[-1]
            t0 = pre["end"]
            if b.tf != t0:
                fails.append(self.F("block-end", f"block closed at {b.tf}, channel end was {t0}", op=k))
            after = sch.slots[-1].tf - t0
            if ch.eom_config.custom_buffer_time:
                want = least_valid_gap(ch, configured_eom_buffer(ch))
            else:
                # fall wait evaluated outside EOM mode (the block is closed first)
                a2 = dict(pre, in_eom=False)
                fall = end_with_fall(a2) - t0
                want = least_valid_gap(ch, fall) if fall > 0 else 0
            if after != want:
                fails.append(self.F("disable-buffer", f"{after} ns appended after the block, expected {want}", op=k))
        # (d) blocks are disjoint, ordered, last one open iff in EOM mode
        prev_end = None
        for i, b in enumerate(sch.eom_blocks):
            if prev_end is not None and b.ti < prev_end:
                fails.append(self.F("blocks-overlap", f"block {i} starts at {b.ti} before the previous one ended at {prev_end}", op=k))
            if b.tf is None and i != len(sch.eom_blocks) - 1:
                fails.append(self.F("blocks-open", f"block {i} is open but not last", op=k))
            prev_end = b.tf if b.tf is not None else prev_end
        return fails

    def end(self, ls):
        """While the channel idles in EOM mode (block left open) its detuning is the off-detuning: also in the
        samples, past the channel's last instruction."""
        fails = []
        seq = ls.real.seq
        if seq.is_parametrized() or not seq._schedule:
            return fails
        from pulser.sampler import sample

        with warnings.catch_warnings():
            warnings.simplefilter("ignore")
            try:
                T = max(seq.get_duration(), 1)
                smp = sample(seq, extended_duration=T + 24)
            except Exception:  # noqa: BLE001 — what can be sampled is C06's clause
                return fails
        for name, sch in seq._schedule.items():
            if not getattr(sch, "eom_blocks", None) or sch.eom_blocks[-1].tf is not None or not sch.slots:
                continue
            cs = smp.channel_samples.get(name)
            if cs is None:
                continue
            off = float(sch.eom_blocks[-1].detuning_off)
            tail = np.asarray(cs.det.as_array(detach=True) if hasattr(cs.det, "as_array") else cs.det, dtype=float)[-24:]
            atail = np.asarray(cs.amp.as_array(detach=True) if hasattr(cs.amp, "as_array") else cs.amp, dtype=float)[-24:]
            if np.max(np.abs(tail - off)) > 1e-9 or np.max(np.abs(atail)) > 0:
                fails.append(self.F("idle-after-last-instruction",
                                    f"{name} is left in EOM mode with detuning_off {off}: past its last instruction the "
                                    f"samples carry detuning {sorted(set(np.round(tail, 9)))[:3]} / amplitude "
                                    f"{float(np.max(np.abs(atail)))}", op="end"))
        return fails


MONITORS["C15"] = MonC15
