"""Shared infrastructure of the /verif checks.

* import guard: the code under test must be /repo's tree, not the installed wheel;
* Lean build + audit (axioms, forbidden tokens) behind a file lock;
* driver process (line protocol);
* evidence writer, known-findings matcher, VIOLATION reporting.
"""
from __future__ import annotations

import fcntl
import hashlib
import json
import os
import re
import subprocess
import sys
import time
from fractions import Fraction
from pathlib import Path

VERIF = Path(__file__).resolve().parent.parent
REPO = Path(os.environ.get("PULSER_REPO", "/repo"))
LEAN_DIR = VERIF / "lean"
EVIDENCE = Path(os.environ["VERIF_EVIDENCE_DIR"]) if os.environ.get("VERIF_EVIDENCE_DIR") else VERIF / "evidence"
REPLAYS = (EVIDENCE.parent / "replays") if os.environ.get("VERIF_EVIDENCE_DIR") else VERIF / "replays"
CORPUS = VERIF / "corpus"
DRIVER = LEAN_DIR / ".lake" / "build" / "bin" / "pmdriver"

ALLOWED_AXIOMS = {"propext", "Classical.choice", "Quot.sound"}
FORBIDDEN = re.compile(
    r"\b(sorry|admit|native_decide|bv_decide|implemented_by|unsafe)\b|^axiom\s|maxHeartbeats 0",
    re.M,
)


class InfraError(Exception):
    """The check could not run (exit status 2, never 0 or 1)."""


def import_guard() -> None:
    """Make sure `pulser` is imported from /repo and nothing else."""
    for sub in ("pulser-core", "pulser-simulation"):
        p = str(REPO / sub)
        if p not in sys.path:
            sys.path.insert(0, p)
    import warnings

    warnings.filterwarnings("ignore")
    import pulser  # noqa

    if not Path(pulser.__file__).resolve().is_relative_to(REPO.resolve()):
        raise InfraError(f"pulser imported from {pulser.__file__}, not from {REPO}")
    try:
        import pulser_simulation  # noqa

        if not Path(pulser_simulation.__file__).resolve().is_relative_to(REPO.resolve()):
            raise InfraError(
                f"pulser_simulation imported from {pulser_simulation.__file__}"
            )
    except ImportError:
        pass


def repo_fingerprint() -> str:
    """Hash of the python sources under test (recorded in the evidence)."""
    h = hashlib.sha256()
    for root in (REPO / "pulser-core" / "pulser", REPO / "pulser-simulation" / "pulser_simulation"):
        for f in sorted(root.rglob("*.py")):
            h.update(str(f.relative_to(REPO)).encode())
            h.update(f.read_bytes())
    return h.hexdigest()[:16]


# --------------------------------------------------------------------------
# Lean side
# --------------------------------------------------------------------------
class _Lock:
    def __init__(self, path: Path):
        self.path = path

    def __enter__(self):
        self.f = open(self.path, "w")
        fcntl.flock(self.f, fcntl.LOCK_EX)
        return self

    def __exit__(self, *a):
        fcntl.flock(self.f, fcntl.LOCK_UN)
        self.f.close()


def strip_comments(src: str) -> str:
    """Remove Lean block (nested) and line comments."""
    out = []
    i, depth, n = 0, 0, len(src)
    while i < n:
        if src.startswith("/-", i):
            depth += 1
            i += 2
        elif depth and src.startswith("-/", i):
            depth -= 1
            i += 2
        elif depth:
            i += 1
        elif src.startswith("--", i):
            j = src.find("\n", i)
            i = n if j < 0 else j
        else:
            out.append(src[i])
            i += 1
    return "".join(out)


def lean_import_closure(roots: list[str]) -> list[Path]:
    """Local Lean files (under lean/) transitively imported by the given modules."""
    seen: dict[str, Path] = {}
    todo = list(roots)
    while todo:
        m = todo.pop()
        if m in seen:
            continue
        f = LEAN_DIR / (m.replace(".", "/") + ".lean")
        if not f.exists():
            continue
        seen[m] = f
        for line in strip_comments(f.read_text()).splitlines():
            mm = re.match(r"\s*import\s+(\S+)", line)
            if mm:
                todo.append(mm.group(1))
    return sorted(seen.values())


def lean_forbidden_tokens(roots: list[str] | None = None) -> list[str]:
    """Forbidden tokens (outside comments) in the Lean files a property depends on
    (all local files when no roots are given)."""
    if roots is None:
        files = [f for f in sorted(LEAN_DIR.rglob("*.lean")) if ".lake" not in f.parts]
    else:
        files = lean_import_closure(roots)
    hits = []
    for f in files:
        code = strip_comments(f.read_text())
        for m in FORBIDDEN.finditer(code):
            hits.append(f"{f.relative_to(LEAN_DIR)}: {m.group(0).strip()}")
    return hits


def lake_build(targets: list[str], timeout: int = 1800) -> tuple[bool, str]:
    """`lake build <targets>` under a lock. Returns (ok, output)."""
    LEAN_DIR.joinpath(".lake").mkdir(exist_ok=True)
    with _Lock(LEAN_DIR / ".lake" / "verif.lock"):
        p = subprocess.run(
            ["lake", "build", *targets],
            cwd=LEAN_DIR,
            stdout=subprocess.PIPE,
            stderr=subprocess.STDOUT,
            text=True,
            timeout=timeout,
        )
    return p.returncode == 0, p.stdout


_AX_RE = re.compile(r"'([^']+)' depends on axioms: \[([^\]]*)\]|'([^']+)' does not depend on any axioms")


def audit_axioms(prop_module: str, theorems: list[str]) -> dict[str, list[str]]:
    """`#print axioms` for each theorem, run through `lake env lean` on a scratch file."""
    src = f"import {prop_module}\n" + "".join(f"#print axioms {t}\n" for t in theorems)
    scratch = LEAN_DIR / ".lake" / f"audit_{prop_module.replace('.', '_')}_{os.getpid()}.lean"
    scratch.write_text(src)
    try:
        p = subprocess.run(
            ["lake", "env", "lean", str(scratch)],
            cwd=LEAN_DIR,
            stdout=subprocess.PIPE,
            stderr=subprocess.STDOUT,
            text=True,
            timeout=900,
        )
    finally:
        scratch.unlink(missing_ok=True)
    res: dict[str, list[str]] = {}
    out = p.stdout.replace("\n  ", " ").replace("\n ", " ")
    for m in _AX_RE.finditer(out):
        if m.group(1):
            res[m.group(1)] = [a.strip() for a in m.group(2).split(",") if a.strip()]
        else:
            res[m.group(3)] = []
    if p.returncode != 0 and not res:
        raise InfraError("axiom audit failed:\n" + p.stdout[-2000:])
    return res


def property_theorems(prop_id: str) -> list[str]:
    """Names of the theorems declared in Properties/<id>.lean (outside comments)."""
    f = LEAN_DIR / "Properties" / f"{prop_id}.lean"
    if not f.exists():
        return []
    code = strip_comments(f.read_text())
    names = []
    ns: list[str] = []
    for line in code.splitlines():
        m = re.match(r"\s*namespace\s+(\S+)", line)
        if m:
            ns.append(m.group(1))
            continue
        m = re.match(r"\s*end\s+(\S+)", line)
        if m and ns and ns[-1] == m.group(1):
            ns.pop()
            continue
        m = re.match(r"\s*(?:@\[[^\]]*\]\s*)?(?:protected\s+|private\s+)?theorem\s+(\S+)", line)
        if m:
            names.append(".".join(ns + [m.group(1)]))
    return names


class Driver:
    """The model behind the line protocol."""

    def __init__(self, exe: str = "pmdriver"):
        path = DRIVER.parent / exe
        if not path.exists():
            raise InfraError(f"{path} missing (run setup.sh)")
        self.p = subprocess.Popen(
            [str(path)], stdin=subprocess.PIPE, stdout=subprocess.PIPE, text=True, bufsize=1
        )
        self.lines = 0

    def ask(self, line: str) -> str:
        assert "\n" not in line
        self.p.stdin.write(line + "\n")
        self.p.stdin.flush()
        self.lines += 1
        r = self.p.stdout.readline()
        if not r:
            raise InfraError(f"driver died on: {line}")
        return r.rstrip("\n")

    def close(self):
        try:
            self.p.stdin.close()
            self.p.wait(timeout=5)
        except Exception:
            self.p.kill()


# --------------------------------------------------------------------------
# numbers
# --------------------------------------------------------------------------
def rat(x) -> str:
    """Exact wire form of a number (float -> exact fraction)."""
    if isinstance(x, bool):
        x = int(x)
    f = Fraction(x) if not isinstance(x, Fraction) else x
    return str(f.numerator) if f.denominator == 1 else f"{f.numerator}/{f.denominator}"


def unrat(s: str) -> Fraction:
    return Fraction(s)


def opt(x, f=str) -> str:
    return "-" if x is None else f(x)


def wlist(xs, f=str) -> str:
    return "[" + ",".join(f(x) for x in xs) + "]"


# --------------------------------------------------------------------------
# findings / evidence / violations
# --------------------------------------------------------------------------
def load_known_findings() -> list[dict]:
    f = VERIF / "known_findings.jsonl"
    out = []
    if f.exists():
        for line in f.read_text().splitlines():
            line = line.strip()
            if line and not line.startswith("#"):
                out.append(json.loads(line))
    return out


def match_known(prop: str, key: dict, findings: list[dict]) -> dict | None:
    """A finding matches when it is `known` (not `fixed`), for this property, and every
    item of its `key` equals the corresponding item of the violation's key."""
    for f in findings:
        if f.get("status") != "known" or f.get("property") != prop:
            continue
        fk = f.get("key", {})
        if fk and all(key.get(k) == v for k, v in fk.items()):
            return f
    return None


def write_replay(prop: str, payload: dict) -> Path:
    d = REPLAYS / prop
    d.mkdir(parents=True, exist_ok=True)
    blob = json.dumps(payload, sort_keys=True, default=str)
    name = hashlib.sha256(blob.encode()).hexdigest()[:12] + ".json"
    p = d / name
    p.write_text(json.dumps(payload, indent=1, default=str))
    return p


def write_evidence(prop: str, ev: dict) -> None:
    EVIDENCE.mkdir(parents=True, exist_ok=True)
    (EVIDENCE / f"{prop}.json").write_text(json.dumps(ev, indent=1, default=str))


class Timer:
    def __init__(self):
        self.t0 = time.time()

    def s(self) -> float:
        return round(time.time() - self.t0, 2)
