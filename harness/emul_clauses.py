"""Emulator clauses of C07 and C15 (numerical; the Lean side does not cover the solver):

C07  "On the emulated qubit a phase shift of phi between two pulses acts as a rotation by phi
      about z: two pi/2 pulses separated by it give excitation probability cos^2(phi/2)."
C15  "With phase-drift correction enabled, the populations produced by the emulator equal those
      of the same pulses played with zero off-detuning."

Each case is a small dict (replayable); `run_case` returns None or a failure message.
"""
from __future__ import annotations

import math
import random
import warnings

import numpy as np

TOL_POP = 5e-4     # C07 populations (solver error of the emulator is ~1e-6..1e-5 on these short cases)
# C15: two long sequences through the ODE solver, one of them with a large detuning between the pulses: the
# solver's own error reaches a few 1e-4 (measured: 2.0e-4 on a 1.5 us sequence at clock period 50); a wrong
# drift correction moves the populations by 5e-3 .. 8e-2
TOL_DRIFT = 2e-3


def _device(case):
    from pulser.channels import Raman, Rydberg
    from pulser.channels.eom import RydbergBeam, RydbergEOM
    from pulser.devices import VirtualDevice

    kw = dict(clock_period=case.get("clock", 1), min_duration=case.get("min_dur", 1),
              mod_bandwidth=case.get("bw"))
    chans = []
    if case["basis"] == "digital":
        chans.append(Raman.Global(None, None, **kw))
    else:
        eom = None
        if case.get("eom"):
            e = case["eom"]
            eom = RydbergEOM(
                mod_bandwidth=e["bw"], limiting_beam=RydbergBeam[e["limiting"]], max_limiting_amp=e["max_amp"],
                intermediate_detuning=e["delta"], controlled_beams=tuple(RydbergBeam[b] for b in e["controlled"]),
                multiple_beam_control=e.get("multiple", True), custom_buffer_time=e.get("buffer"))
        chans.append(Rydberg.Global(None, None, eom_config=eom, **kw))
    return VirtualDevice(name="emul", dimensions=2, rydberg_level=60, channel_objects=tuple(chans))


def _final_populations(seq):
    from pulser_simulation import QutipEmulator

    em = QutipEmulator.from_sequence(seq, sampling_rate=1.0)
    res = em.run(nsteps=20000)
    st = res.get_final_state()
    v = np.abs(np.asarray(st.full()).ravel()) ** 2
    return v


def gen_ramsey(rng: random.Random) -> dict:
    return dict(
        kind="ramsey", basis=rng.choice(["ground-rydberg", "digital"]),
        phi=rng.choice([rng.uniform(-7, 7), rng.uniform(0, 2 * math.pi), math.pi, -math.pi / 2, 2 * math.pi + 0.3, 0.0]),
        T=rng.choice([52, 100, 200]), via=rng.choice(["phase_shift", "post_phase_shift", "two_shifts"]),
        gap=rng.choice([0, 0, 40, 100]), clock=rng.choice([1, 4]), min_dur=rng.choice([1, 16]))


def run_ramsey(case: dict):
    from pulser import Pulse, Register, Sequence

    with warnings.catch_warnings():
        warnings.simplefilter("ignore")
        dev = _device(case)
        seq = Sequence(Register.from_coordinates([(0.0, 0.0)], prefix="q"), dev)
        name = list(dev.channels)[0]
        seq.declare_channel("c", name)
        T, phi = case["T"], case["phi"]
        amp = (math.pi / 2) / T * 1000.0
        post = phi if case["via"] == "post_phase_shift" else 0.0
        seq.add(Pulse.ConstantPulse(T, amp, 0.0, 0.0, post_phase_shift=post), "c")
        if case["via"] == "phase_shift":
            seq.phase_shift(phi, "q0", basis=case["basis"])
        elif case["via"] == "two_shifts":
            seq.phase_shift(phi / 3, "q0", basis=case["basis"])
            seq.phase_shift(2 * phi / 3, "q0", basis=case["basis"])
        if case["gap"]:
            seq.delay(case["gap"], "c")
        seq.add(Pulse.ConstantPulse(T, amp, 0.0, 0.0), "c")
        pops = _final_populations(seq)
    # basis order of the emulator for one atom: (r, g) in ground-rydberg, (g, h) in digital: the
    # excited level of the driven transition is r resp. h
    exc = pops[0] if case["basis"] == "ground-rydberg" else pops[1]
    want = math.cos(phi / 2) ** 2
    if abs(exc - want) > TOL_POP:
        return (f"two pi/2 pulses separated by a phase shift of {phi} ({case['via']}): excitation probability "
                f"{exc:.6f}, expected cos^2(phi/2) = {want:.6f}")
    return None


def gen_drift(rng: random.Random) -> dict:
    bw = rng.choice([4, 10, 40])
    return dict(
        kind="drift", basis="ground-rydberg", bw=bw, clock=rng.choice([1, 4, 50]), min_dur=rng.choice([1, 16, 50]),
        eom=dict(bw=rng.choice([20, 40, 60]), limiting=rng.choice(["RED", "BLUE"]), max_amp=rng.choice([20.0, 40.0, 62.83]),
                 delta=rng.choice([400.0, 700.0, 2800.0]), controlled=rng.choice([["BLUE"], ["RED"], ["BLUE", "RED"]]),
                 multiple=rng.random() < 0.6, buffer=rng.choice([None, None, 40, 240])),
        amp_on=round(rng.uniform(1.0, 6.0), 3), det_on=rng.choice([0.0, 0.0, round(rng.uniform(-3, 3), 2)]),
        optimal=rng.choice([0.0, round(rng.uniform(-40, 40), 1), -100.0]),
        pre_pulse=rng.random() < 0.6, pre_delay=rng.choice([0, 100]),
        pulses=[(rng.choice([52, 100, 160]), rng.choice([0.0, 0.0, round(rng.uniform(0, 6), 2)]))
                for _ in range(rng.choice([1, 2, 3]))],
        gaps=[rng.choice([0, 52, 100, 200]) for _ in range(3)],
        modify=rng.random() < 0.3, post_pulse=rng.random() < 0.6)


def _drift_sequences(case):
    """The EOM sequence with drift correction, and the same pulses replayed at the same instants on a
    channel without EOM with zero detuning between them."""
    from pulser import Pulse, Register, Sequence

    dev = _device(case)
    reg = Register.from_coordinates([(0.0, 0.0)], prefix="q")
    a = Sequence(reg, dev)
    name = list(dev.channels)[0]
    a.declare_channel("c", name)
    if case["pre_pulse"]:
        a.add(Pulse.ConstantPulse(100, 1.0, 0.0, 0.0), "c")
        if case["pre_delay"]:
            a.delay(case["pre_delay"], "c")
    a.enable_eom_mode("c", case["amp_on"], case["det_on"], optimal_detuning_off=case["optimal"],
                      correct_phase_drift=True)
    for i, (d, ph) in enumerate(case["pulses"]):
        a.add_eom_pulse("c", d, ph, correct_phase_drift=True)
        if case["gaps"][i]:
            a.delay(case["gaps"][i], "c")
        if case["modify"] and i == 0 and len(case["pulses"]) > 1:
            a.modify_eom_setpoint("c", case["amp_on"] * 0.8, case["det_on"], optimal_detuning_off=case["optimal"],
                                  correct_phase_drift=True)
    a.disable_eom_mode("c", correct_phase_drift=True)
    if case["post_pulse"]:
        a.add(Pulse.ConstantPulse(100, 1.5, 0.0, 0.7), "c")
    return dev, reg, a


def run_drift(case: dict):
    from pulser import Pulse, Sequence
    from pulser.channels import Rydberg
    from pulser.devices import VirtualDevice

    with warnings.catch_warnings():
        warnings.simplefilter("ignore")
        try:
            dev, reg, a = _drift_sequences(case)
        except Exception:      # noqa: BLE001 (setpoint not allowed on this EOM, duration limits, ...)
            return "skip"
        sch = a._schedule["c"]
        if all(float(b.detuning_off) == 0.0 for b in sch.eom_blocks):
            return "skip"
        # reference: the user's pulses (every pulse with non-zero amplitude) at the same instants, with their
        # PROGRAMMED phases (relative to the reference at that time, as without any off-detuning), and no
        # detuning in between, on a plain channel
        plain = VirtualDevice(name="plain", dimensions=2, rydberg_level=60,
                              channel_objects=(Rydberg.Global(None, None),))
        b = Sequence(reg, plain)
        b.declare_channel("c", "rydberg_global")
        t = 0
        # programmed pulses in order
        prog = []
        if case["pre_pulse"]:
            prog.append((1.0, 0.0, 0.0))
        amp_now = case["amp_on"]
        for i, (d, ph) in enumerate(case["pulses"]):
            prog.append((amp_now, case["det_on"], ph))
            if case["modify"] and i == 0 and len(case["pulses"]) > 1:
                amp_now = case["amp_on"] * 0.8
        if case["post_pulse"]:
            prog.append((1.5, 0.0, 0.7))
        real = [s for s in sch.slots if not isinstance(s.type, str) and float(np.max(np.abs(
            s.type.amplitude.samples.as_array(detach=True)))) > 0]
        if len(real) != len(prog):
            return "skip"
        for s, (amp, det, ph) in zip(real, prog):
            if s.ti > t:
                b.delay(int(s.ti - t), "c")
            b.add(Pulse.ConstantPulse(int(s.tf - s.ti), amp, det, ph), "c", protocol="no-delay")
            t = int(s.tf)
        if sch.slots[-1].tf > t:
            b.delay(int(sch.slots[-1].tf - t), "c")
        pa = _final_populations(a)
        pb = _final_populations(b)
    offs = [float(x.detuning_off) for x in sch.eom_blocks]
    # (the solver's own error grows with the detuning it has to integrate through)
    tol = TOL_DRIFT * max(1.0, max(abs(o) for o in offs) / 20.0)
    if np.max(np.abs(pa - pb)) > tol:
        return (f"EOM sequence with phase-drift correction (detuning_off {offs}) ends with populations "
                f"{[round(float(x), 6) for x in pa]}, the same pulses with zero off-detuning give "
                f"{[round(float(x), 6) for x in pb]}")
    return None


def gen_case(rng: random.Random, prop: str) -> dict:
    # C07 counts the EOM drift corrections among the phase shifts of a reference: a third of its emulator
    # cases are drift cases too
    if prop == "C07":
        return gen_ramsey(rng) if rng.random() < 0.67 else gen_drift(rng)
    return gen_drift(rng)


def run_case(case: dict):
    return run_ramsey(case) if case["kind"] == "ramsey" else run_drift(case)
