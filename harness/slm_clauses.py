"""SLM-mask sequences for the timeline (C02) and limit (C01) clauses — on the implementation only.

`config_slm_mask` is outside the op alphabet of the scheduler model; in Ising mode it declares a DMM
channel and schedules a detuning pulse on it (as long as the first pulse of the sequence, clipped at the
DMM's bottom detunings).  That pulse is an instruction like any other:

C02  every instruction of every channel lasts a multiple of the channel's clock period, at least its
     minimum duration and at most its maximum, and the instructions of a channel are contiguous;
C01  every scheduled pulse is within the limits of its channel (for a DMM: no positive detuning, no
     detuning below the bottom detuning, total below the total bottom detuning).

A case is a small dict (replayable); `run_case(case, prop)` returns None, "skip" (a call was refused —
refusing is always allowed) or a failure message.
"""
from __future__ import annotations

import random
import warnings

import numpy as np


def gen_case(rng: random.Random) -> dict:
    ch_clock = rng.choice([1, 1, 4])
    return dict(
        kind="slm",
        nq=rng.choice([2, 3]),
        ch=dict(clock=ch_clock, min_dur=rng.choice([1, 1, ch_clock * 4]), bw=rng.choice([None, None, 10.0])),
        dmm=dict(clock=rng.choice([1, 4, 4, 8]), min_dur=rng.choice([1, 16, 16, 24]),
                 max_dur=rng.choice([None, None, 400]), bottom=rng.choice([None, -5.0, -20.0, -120.0]),
                 total_bottom=rng.choice([None, None, -30.0, -200.0]), bw=rng.choice([None, None, 10.0])),
        mask=sorted(rng.sample(range(3), rng.randrange(1, 3))),
        mask_first=rng.random() < 0.5,
        pulses=[dict(dur=rng.choice([10, 16, 18, 21, 52, 100, 250]), amp=rng.choice([0.5, 3.0, 8.0]),
                     det=rng.choice([0.0, 0.0, -2.0])) for _ in range(rng.randrange(1, 4))],
        delay_first=rng.choice([0, 0, 16, 40]),
    )


def build(case: dict):
    from pulser import Pulse, Register, Sequence
    from pulser.channels import Rydberg
    from pulser.channels.dmm import DMM
    from pulser.devices import VirtualDevice

    c, d = case["ch"], case["dmm"]
    ch = Rydberg.Global(100.0, 50.0, clock_period=c["clock"], min_duration=c["min_dur"], mod_bandwidth=c["bw"])
    dmm = DMM(clock_period=d["clock"], min_duration=d["min_dur"], max_duration=d["max_dur"],
              bottom_detuning=d["bottom"], total_bottom_detuning=d["total_bottom"], mod_bandwidth=d["bw"])
    dev = VirtualDevice(name="slm", dimensions=2, rydberg_level=60, channel_objects=(ch,), dmm_objects=(dmm,),
                        supports_slm_mask=True, reusable_channels=False)
    qids = [f"q{i}" for i in range(case["nq"])]
    reg = Register({q: (6.0 * i, 0.0) for i, q in enumerate(qids)})
    seq = Sequence(reg, dev)
    seq.declare_channel("g", "rydberg_global")
    mask = [qids[i] for i in case["mask"] if i < case["nq"]] or [qids[0]]
    if case["mask_first"]:
        seq.config_slm_mask(mask, "dmm_0")
    if case["delay_first"]:
        seq.delay(case["delay_first"], "g")
    for k, p in enumerate(case["pulses"]):
        seq.add(Pulse.ConstantPulse(p["dur"], p["amp"], p["det"], 0.0), "g")
        if k == 0 and not case["mask_first"]:
            seq.config_slm_mask(mask, "dmm_0")
    return seq, len(mask)


def run_case(case: dict, prop: str):
    from pulser import Pulse

    with warnings.catch_warnings():
        warnings.simplefilter("ignore")
        try:
            seq, n_masked = build(case)
        except Exception:  # noqa: BLE001 — a refused call is always allowed (its residue is C09's business)
            return "skip"
        for name, sch in seq._schedule.items():
            obj = sch.channel_obj
            # limits recomputed from the case, not read from the channel object
            spec = case["dmm"] if name.startswith("dmm_") else case["ch"]
            clock, mn, mx = spec["clock"], spec["min_dur"], spec.get("max_dur")
            prev_tf = None
            for s in sch.slots:
                ti, tf = int(s.ti), int(s.tf)
                if s.type == "target" and ti < 0:
                    prev_tf = tf
                    continue
                d = tf - ti
                if prop == "C02":
                    if prev_tf is not None and ti != prev_tf:
                        return f"channel {name}: instruction [{ti}, {tf}) does not start where the previous one ends ({prev_tf})"
                    if d % clock or d < mn or (mx is not None and d > mx) or ti % clock:
                        return (f"channel {name} (clock {clock}, min_duration {mn}, max_duration {mx}): instruction "
                                f"[{ti}, {tf}) of {d} ns scheduled by the SLM mask path")
                    if isinstance(s.type, Pulse) and int(s.type.duration) != d:
                        return f"channel {name}: a pulse of {s.type.duration} ns occupies a slot of {d} ns"
                prev_tf = tf
                if prop == "C01" and isinstance(s.type, Pulse):
                    det = np.asarray(s.type.detuning.samples.as_array(detach=True), dtype=float)
                    amp = np.asarray(s.type.amplitude.samples.as_array(detach=True), dtype=float)
                    if name.startswith("dmm_"):
                        bottom, total = case["dmm"]["bottom"], case["dmm"]["total_bottom"]
                        if np.any(amp != 0) or np.any(det > 0):
                            return f"channel {name}: a DMM pulse with amplitude or positive detuning"
                        if bottom is not None and np.min(det) < bottom - 1e-9:
                            return f"channel {name}: detuning {np.min(det)} below the bottom detuning {bottom}"
                        if total is not None and np.min(det) * n_masked < total - 1e-9:
                            return (f"channel {name}: detuning {np.min(det)} on {n_masked} masked atoms below the total "
                                    f"bottom detuning {total}")
                        if d % clock or d < mn or (mx is not None and d > mx):
                            return (f"channel {name} (clock {clock}, min_duration {mn}, max_duration {mx}): a pulse of "
                                    f"{d} ns was scheduled")
                    else:
                        if np.max(amp) > 100.0 + 1e-9 or np.max(np.abs(det)) > 50.0 + 1e-9:
                            return f"channel {name}: pulse outside the amplitude / detuning limits"
        _ = obj
    return None
